package harness

// C11 (c): schedule bindings enabled and disabled through the hook controllers (the API addon-operator
// uses) while the real schedule manager and the real cron run on the fake clock. Per firing the tasks
// created by the operator's schedule callback are compared with the bindings enabled at that moment;
// the firings themselves are compared with a single-copy reference cron (as in the schedmgr workload).

import (
	"fmt"
	"sort"
	"strconv"
	"strings"
	"sync"
	"time"

	"gopkg.in/robfig/cron.v2"

	"github.com/flant/shell-operator/pkg/hook/task_metadata"
	shop "github.com/flant/shell-operator/pkg/shell-operator"
	simrt "verifsimrt"
)

func init() {
	register(&Workload{Name: "schedctl", Run: runSchedCtlWL})
	plans["C11"] = append(plans["C11"], Part{WL: "schedctl", Cfg: "prop=C11", Quick: 300, Thor: 8000})
}

func runSchedCtlWL(e *Env) {
	wl := e.WL
	webhookPolicy(e, "pkg/hook/controller/schedule_bindings_controller.go", "pkg/schedule_manager/", "pkg/hook/hook_manager.go", "pkg/shell-operator/operator.go")
	// two spellings of the same schedule (double blank) are two crontab strings: each binding is served under its own
	crontabs := []string{"* * * * * *", "*/2 * * * * *", "*/3 * * * * *", "*  * * * * *", "*/2 * * * *  *"}
	nh := 2 + wl.Choose(2)
	var hooks []*HookSpec
	for i := 0; i < nh; i++ {
		h := &HookSpec{Path: []string{"a.sh", "b.sh", "c/d.sh"}[i]}
		unnamed := wl.Bias(1, 3)
		for k, n := 0, 1+wl.Choose(2); k < n; k++ {
			sb := SchedBinding{Name: "s" + strconv.Itoa(k), Crontab: crontabs[wl.Choose(len(crontabs))], Queue: []string{"", "q1", "q2"}[wl.Choose(3)]}
			if unnamed {
				sb.Name, sb.Unnamed = "schedule", true
			}
			h.Sched = append(h.Sched, sb)
		}
		hooks = append(hooks, h)
	}
	o := NewOpSim(e, hooks)
	enabled := map[string]bool{}
	inTransition := map[string]bool{}
	type fire struct {
		At      time.Duration
		Crontab string
		Tasks   []string // hook|binding|queue
		Enabled map[string]bool
		Unsure  map[string]bool
	}
	var fires []fire
	var opsLog []string
	var opTimes []time.Duration
	// reference cron: one entry per crontab while some enabled binding uses it
	var refMu sync.Mutex
	refFired := map[string]int{}
	refCron := cron.New()
	refIDs := map[string]map[string]bool{}
	refEntry := map[string]cron.EntryID{}
	refApply := func(add bool, c, id string) {
		if refIDs[c] == nil {
			refIDs[c] = map[string]bool{}
		}
		before := len(refIDs[c]) > 0
		if add {
			refIDs[c][id] = true
		} else {
			delete(refIDs[c], id)
		}
		after := len(refIDs[c]) > 0
		if !before && after {
			cc := c
			refEntry[c], _ = refCron.AddFunc(c, func() {
				refMu.Lock()
				refFired[fmt.Sprintf("%s @%v", cc, time.Since(e.T0))]++
				refMu.Unlock()
			})
		}
		if before && !after {
			refCron.Remove(refEntry[c])
		}
	}
	done := false
	simrt.GoNamed("boot", func() {
		o.Boot(false)
		e.S.Arm()
		if o.BootErr != nil {
			done = true
			return
		}
		cb := shop.VerifScheduleCb(o.Op)
		o.Op.ScheduleManager.Start()
		refCron.Start()
		simrt.GoNamed("consumer", func() {
			for {
				select {
				case c := <-o.Op.ScheduleManager.Ch():
					simrt.Yield("consumer")
					f := fire{At: e.Since(), Crontab: c, Enabled: map[string]bool{}, Unsure: map[string]bool{}}
					for h, v := range enabled {
						f.Enabled[h] = v
					}
					for h, v := range inTransition {
						f.Unsure[h] = v
					}
					for _, t := range cb(c) {
						if hm, ok := t.GetMetadata().(task_metadata.HookMetadata); ok {
							f.Tasks = append(f.Tasks, hm.HookName+"|"+hm.Binding+"|"+t.GetQueueName())
						}
					}
					// a transition that began or ended while the tasks were created
					for h, v := range inTransition {
						if v {
							f.Unsure[h] = true
						}
					}
					for h, v := range enabled {
						if f.Enabled[h] != v {
							f.Unsure[h] = true
						}
					}
					fires = append(fires, f)
					simrt.Logf("fired %s at %v tasks %v", c, f.At, f.Tasks)
				case <-o.ctx.Done():
					return
				}
			}
		})
		simrt.GoNamed("driver", func() {
			n := 3 + wl.Choose(8)
			for i := 0; i < n; i++ {
				simrt.Yield("drv")
				simrt.Sleep(time.Duration(1+wl.Choose(30)) * 100 * time.Millisecond)
				h := hooks[wl.Choose(len(hooks))]
				enable := !enabled[h.Path]
				if wl.Bias(1, 5) {
					enable = !enable // a repeated call
				}
				hk := o.Op.HookManager.GetHook(h.Path)
				if hk == nil {
					e.Viol("C11", "T0", "hook-not-loaded", "hook %s is not known to the hook manager", h.Path)
					break
				}
				inTransition[h.Path] = true
				opsLog = append(opsLog, fmt.Sprintf("%v enable=%v %s", e.Since(), enable, h.Path))
				opTimes = append(opTimes, e.Since())
				simrt.Logf("op enable=%v %s", enable, h.Path)
				if enable {
					hk.HookController.EnableScheduleBindings()
				} else {
					hk.HookController.DisableScheduleBindings()
				}
				enabled[h.Path] = enable
				inTransition[h.Path] = false
				for k, sb := range h.Sched {
					refApply(enable, sb.Crontab, h.Path+"#"+strconv.Itoa(k))
				}
				opTimes = append(opTimes, e.Since())
				simrt.Settle("ref-cron")
			}
			simrt.Sleep(time.Duration(4+wl.Choose(6)) * time.Second)
			done = true
		})
	})
	err := e.S.Run(func() bool { return len(e.S.Panics) > 0 || done })
	end := e.Since()
	if err != nil {
		e.Out.Truncated = true
	}
	if o.BootErr != nil {
		e.Out.Infra = "operator assembly failed: " + o.BootErr.Error()
	}
	panicsToViolations(e, "C11")
	e.Out.NonTrivial = len(opsLog) > 1
	if err == nil && o.BootErr == nil && len(e.S.Panics) == 0 {
		sameInstantAsOp := func(at time.Duration) bool {
			for _, t := range opTimes {
				if t == at {
					return true
				}
			}
			return false
		}
		got := map[string]int{}
		for _, f := range fires {
			got[fmt.Sprintf("%s @%v", f.Crontab, f.At)]++
			simrt.Count("probe:schedule-firing-handled")
			// tasks of the firing against the enabled bindings, as multisets per hook
			for _, h := range hooks {
				if f.Unsure[h.Path] {
					continue
				}
				var want, have []string
				if f.Enabled[h.Path] {
					for _, sb := range h.Sched {
						if sb.Crontab == f.Crontab {
							q := sb.Queue
							if q == "" {
								q = "main"
							}
							want = append(want, h.Path+"|"+sb.Name+"|"+q)
						}
					}
				}
				for _, t := range f.Tasks {
					if strings.HasPrefix(t, h.Path+"|") {
						have = append(have, t)
					}
				}
				sort.Strings(want)
				sort.Strings(have)
				if fmt.Sprint(want) != fmt.Sprint(have) {
					sig := "tasks-differ"
					switch {
					case !f.Enabled[h.Path] && len(have) > 0:
						sig = "task-for-disabled-binding"
					case len(have) < len(want):
						sig = "binding-without-task"
					case len(have) > len(want):
						sig = "duplicate-task"
					}
					e.Viol("C11", "T6", sig, "firing of %q at %v: hook %s (enabled=%v) got tasks %v, its bindings with that crontab are %v; operations: %v", f.Crontab, f.At, h.Path, f.Enabled[h.Path], have, want, opsLog)
				}
			}
		}
		refMu.Lock()
		want := map[string]int{}
		for k, v := range refFired {
			want[k] = v
		}
		refMu.Unlock()
		keys := map[string]bool{}
		for k := range got {
			keys[k] = true
		}
		for k := range want {
			keys[k] = true
		}
		for _, k := range sortedKeys(keys) {
			at, _ := time.ParseDuration(k[strings.LastIndex(k, "@")+1:])
			if at == end || sameInstantAsOp(at) {
				continue // in flight on one side, or concurrent with a call
			}
			switch {
			case got[k] > want[k] && want[k] > 0:
				e.Viol("C11", "T1", "duplicate-firing", "%s: %d firings, a single registration fires %d time(s); operations: %v", k, got[k], want[k], opsLog)
			case got[k] > want[k]:
				e.Viol("C11", "T2", "firing-while-unregistered", "%s: fired although no enabled binding uses the crontab; operations: %v", k, opsLog)
			case got[k] < want[k]:
				e.Viol("C11", "T2", "missing-firing", "%s: %d firings, expected %d while a binding is enabled; operations: %v", k, got[k], want[k], opsLog)
			}
		}
	}
	if e.Detail {
		var fs []string
		for _, f := range fires {
			fs = append(fs, fmt.Sprintf("%v %s -> %v", f.At, f.Crontab, f.Tasks))
		}
		e.Out.Sample = map[string]any{"operations": opsLog, "firings": fs}
	}
	refCron.Stop()
	o.Teardown()
}
