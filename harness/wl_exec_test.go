package harness

// C12: the hook execution contract with REAL hook processes (bash via os/exec inside the
// bubble): the scripts record working directory, arguments, the six variables, the files'
// sizes, a copy of the binding-context file and a listing of the temp directory, then write
// scripted output and exit with a scripted code. Executions of different queues overlap in
// simulated time through the two-phase envelope.

import (
	"fmt"
	"os"
	"path/filepath"
	"strconv"
	"strings"
	"time"

	metricstorage "github.com/flant/shell-operator/pkg/metric_storage"
	"github.com/flant/shell-operator/pkg/task/queue"
	simrt "verifsimrt"
)

func init() {
	register(&Workload{Name: "hookexec", Run: runHookExecWL})
	plans["C12"] = []Part{{WL: "hookexec", Cfg: "prop=C12", Quick: 30, Thor: 1000}}
}

type execPlan struct {
	Exit        int
	MetricsKind string // none | valid | truncated | wrongtype
	PatchKind   string // none | valid | invalid
	Signal      string // the process ends by a signal instead of exiting with Exit
	Marker      string
}

func runHookExecWL(e *Env) {
	wl := e.WL
	webhookPolicy(e, "pkg/hook/", "pkg/executor/", "pkg/shell-operator/operator.go")
	nh := 1 + wl.Choose(2)
	var hooks []*HookSpec
	for i := 0; i < nh; i++ {
		h := &HookSpec{Path: []string{"a.sh", "sub/b.sh"}[i]}
		h.Sched = []SchedBinding{{Name: "tick", Crontab: []string{"* * * * * *", "*/2 * * * * *"}[wl.Choose(2)], Queue: "q" + strconv.Itoa(i)}}
		if wl.Choose(2) == 0 {
			h.Kube = []KubeBinding{{Name: "k0", Kind: "ConfigMap", NsNames: []string{"default"}}}
		}
		hooks = append(hooks, h)
	}
	o := NewOpSim(e, hooks)
	o.UseRealHooks()
	// ambient environment of the operator process (an input like any other): in some runs it
	// already holds variables with the names of the per-execution ones, pointing elsewhere
	if wl.Bias(1, 3) {
		decoy := filepath.Join(e.Dir, "ambient-decoy")
		_ = os.WriteFile(decoy, nil, 0o644)
		vars := []string{"BINDING_CONTEXT_PATH", "METRICS_PATH", "KUBERNETES_PATCH_PATH", "VALIDATING_RESPONSE_PATH", "CONVERSION_RESPONSE_PATH"}
		mask := 1 + wl.Choose(31)
		for i, v := range vars {
			if mask&(1<<i) != 0 {
				val := decoy
				if wl.Choose(3) == 0 {
					val = "/nonexistent/ambient"
				}
				os.Setenv(v, val)
				defer os.Unsetenv(v)
			}
		}
		simrt.Count("probe:ambient-environment-has-conflicting-names")
	}
	api := o.API
	api.ApplyNamespace("default", nil)
	plansByExec := map[int]*execPlan{}
	maxExecs := 6 + wl.Choose(8)
	nmark := 0
	o.Behave = func(x *Exec) {
		x.Dur = time.Duration(wl.Choose(4)) * 400 * time.Millisecond
		p := &execPlan{MetricsKind: "none", PatchKind: "none"}
		if len(o.Execs) <= maxExecs {
			nmark++
			p.Marker = "m" + strconv.Itoa(nmark)
			if wl.Bias(1, 5) {
				p.Exit = []int{1, 3, 127}[wl.Choose(3)]
				if wl.Bias(1, 3) {
					p.Signal = []string{"KILL", "TERM", "SEGV"}[wl.Choose(3)] // dies from a signal after writing its outputs
				}
			}
			p.MetricsKind = []string{"none", "valid", "valid", "truncated", "wrongtype"}[wl.Choose(5)]
			p.PatchKind = []string{"none", "none", "valid", "invalid"}[wl.Choose(4)]
		}
		switch p.MetricsKind {
		case "valid":
			x.Metrics = fmt.Sprintf(`{"name":"c12_marker","action":"set","value":%d,"labels":{"m":%q}}`+"\n", nmark, p.Marker)
		case "truncated":
			x.Metrics = `{"name":"c12_marker","action":"set","val`
		case "wrongtype":
			x.Metrics = `{"name":"c12_marker","action":"set","value":"high","labels":{"m":"x"}}` + "\n"
		}
		switch p.PatchKind {
		case "valid":
			x.Patch = fmt.Sprintf(`{"operation":"CreateOrUpdate","object":{"apiVersion":"v1","kind":"ConfigMap","metadata":{"name":"out-%s","namespace":"default"},"data":{"m":%q}}}`, p.Marker, p.Marker)
		case "invalid":
			x.Patch = `{"operation":"Delete","kind":"ConfigMap"}`
		}
		x.ExitCode = p.Exit
		x.Signal = p.Signal
		x.Fail = p.Exit != 0
		plansByExec[x.N] = p
	}
	finished := false
	simrt.GoNamed("boot", func() {
		o.Boot(true)
		e.S.Arm()
		simrt.GoNamed("mutator", func() {
			for i := 0; i < 4; i++ {
				simrt.Sleep(time.Duration(1+wl.Choose(4)) * 700 * time.Millisecond)
				api.Apply(gvrCMs, mkObj("ConfigMap", "default", "in"+strconv.Itoa(wl.Choose(2)), nil, map[string]any{"data": map[string]any{"v": strconv.Itoa(i)}}))
			}
		})
	})
	err := e.S.RunUntil(func() bool {
		return len(e.S.Panics) > 0 || (o.Booted && (o.BootErr != nil || finished))
	}, func() bool {
		// a few unscripted executions after the scripted ones show whether the last scripted ones failed
		if !finished && len(o.Execs) >= maxExecs+6 && o.inFlight == 0 {
			finished = true
		}
		return false
	})
	if err != nil {
		e.Out.Truncated = true
	}
	if o.BootErr != nil {
		e.Out.Infra = "operator assembly failed: " + o.BootErr.Error()
	}
	panicsToViolations(e, "C12")
	e.Out.NonTrivial = len(o.Execs) > 2
	if err == nil && o.BootErr == nil && len(e.S.Panics) == 0 {
		initial := queue.DefaultInitialDelayOnFailedTask
		seenPath := map[string]int{}
		gathered := map[string]string{}
		if ms, ok := o.Op.HookMetricStorage.(*metricstorage.MetricStorage); ok {
			gathered, _ = gatherMap(ms)
		}
		byQ := map[string][]*Exec{}
		for _, x := range o.Execs {
			q := o.queueOfExec(x)
			byQ[q] = append(byQ[q], x)
		}
		for _, x := range o.Execs {
			p := plansByExec[x.N]
			if x.EndSeq == 0 {
				continue // still in its simulated duration when the run ended
			}
			if x.Report == nil || len(x.Report) == 0 {
				e.Viol("C12", "E0", "no-report", "execution #%d of %s: the hook process left no report (was it started?)", x.N, x.Hook)
				continue
			}
			simrt.Count("probe:real-process-execution")
			desc := fmt.Sprintf("execution #%d of %s", x.N, x.Hook)
			// E1: started in its own directory, without arguments
			wantDir := filepath.Dir(filepath.Join(o.HooksDir, x.Hook))
			if x.Report["pwd"] != wantDir {
				e.Viol("C12", "E1", "working-directory", "%s started in %q, its own directory is %q", desc, x.Report["pwd"], wantDir)
			}
			if x.Report["argc"] != "0" {
				e.Viol("C12", "E1", "arguments", "%s started with %s arguments", desc, x.Report["argc"])
			}
			// E2/E3: six variables pointing to existing files, the four output files empty
			for _, v := range []string{"BINDING_CONTEXT_PATH", "METRICS_PATH", "KUBERNETES_PATCH_PATH", "VALIDATING_RESPONSE_PATH", "ADMISSION_RESPONSE_PATH", "CONVERSION_RESPONSE_PATH"} {
				path, size := x.Report["env."+v], x.Report["size."+v]
				if path == "" || size == "-1" {
					e.Viol("C12", "E2", "variable:"+v, "%s: %s=%q does not point to an existing file", desc, v, path)
					continue
				}
				if v != "BINDING_CONTEXT_PATH" && size != "0" {
					e.Viol("C12", "E3", "output-file-not-empty:"+v, "%s: %s has %s bytes at start", desc, v, size)
				}
				if v == "ADMISSION_RESPONSE_PATH" {
					continue // documented alias of VALIDATING_RESPONSE_PATH
				}
				if prev, dup := seenPath[path]; dup {
					e.Viol("C12", "E4", "file-name-reused", "%s: %s=%s was already used by execution #%d", desc, v, path, prev)
				}
				seenPath[path] = x.N
			}
			// context file: what the process read is a JSON array with one item per context of the task
			if cs, perr := parseCtxs(x.ReportCtx); perr != nil {
				e.Viol("C12", "E2", "context-file", "%s: binding context file is not a JSON array: %v", desc, perr)
			} else if len(cs) == 0 {
				e.Viol("C12", "E2", "context-file-empty", "%s: binding context file holds no context", desc)
			}
			// E7: the temp directory holds only files of executions in flight
			for _, f := range strings.Fields(x.Report["tmp"]) {
				owner := -1
				for _, y := range o.Execs {
					for _, pth := range y.Env {
						if filepath.Base(pth) == f {
							owner = y.N
						}
					}
				}
				if owner < 0 {
					e.Viol("C12", "E7", "foreign-temp-file", "%s sees %s in the temp directory, which belongs to no execution", desc, f)
					continue
				}
				y := o.Execs[owner-1]
				// an execution ends when Hook.Run returns, i.e. at the latest when its queue starts the next task
				// (the stub only sees the end of the process, the files are removed a little later)
				ended := false
				for _, z := range byQ[o.queueOfExec(y)] {
					if z.StartSeq > y.StartSeq && z.StartSeq < x.EndSeq {
						ended = true
					}
				}
				// (an execution that shows up in the log later may already have prepared its files: Hook.Run
				// creates them before it starts the process)
				if y.N != x.N && ended {
					e.Viol("C12", "E7", "stale-temp-file", "%s sees %s of execution #%d which had ended before", desc, f, y.N)
				}
			}
			if p == nil {
				continue
			}
			// E5: failure <=> non-zero exit or malformed output (observed by the back-off in its queue)
			q := o.queueOfExec(x)
			var next *Exec
			for i, y := range byQ[q] {
				if y == x && i+1 < len(byQ[q]) {
					next = byQ[q][i+1]
				}
			}
			shouldFail := p.Exit != 0 || p.MetricsKind == "truncated" || p.MetricsKind == "wrongtype" || p.PatchKind == "invalid"
			onlyTicks := true
			for _, c := range x.Ctxs {
				if c.Type != "Schedule" {
					onlyTicks = false
				}
			}
			// the back-off is only a reliable sign of failure in a queue that always has work (schedule ticks)
			if next != nil && onlyTicks {
				failed := next.Start-x.End >= initial-time.Second
				if failed != shouldFail {
					sig := "failure-not-detected"
					if failed {
						sig = "success-treated-as-failure"
					}
					e.Viol("C12", "E5", sig, "%s: exit %d, metrics %s, patch %s => should fail=%v; the queue continued after %v", desc, p.Exit, p.MetricsKind, p.PatchKind, shouldFail, next.Start-x.End)
				}
			}
			// E6: after a zero exit the outputs are applied; after a failure by exit code they are not
			metricKey := fmt.Sprintf(`c12_marker{hook=%s,m=%s}`, x.Hook, p.Marker)
			_, hasMetric := gathered[metricKey]
			hasPatch := api.Get(gvrCMs, "default", "out-"+p.Marker) != nil
			if p.Exit == 0 && p.MetricsKind == "valid" && p.PatchKind != "invalid" && !hasMetric {
				e.Viol("C12", "E6", "metrics-not-applied", "%s: exit 0 and valid outputs, but series %s is not in the registry", desc, metricKey)
			}
			if p.Exit == 0 && p.PatchKind == "valid" && (p.MetricsKind == "valid" || p.MetricsKind == "none") && !hasPatch {
				e.Viol("C12", "E6", "patch-not-applied", "%s: exit 0 and valid outputs, but object out-%s was not created", desc, p.Marker)
			}
			if p.Exit != 0 && (hasMetric || hasPatch) {
				e.Viol("C12", "E6", "outputs-applied-after-failure", "%s exited %d but its outputs were applied (metric=%v patch=%v)", desc, p.Exit, hasMetric, hasPatch)
			}
			if shouldFail {
				simrt.Count("probe:failing-real-execution")
			}
		}
		// E7: none left after the run
		if ents, derr := os.ReadDir(o.TmpDir); derr == nil && o.inFlight == 0 {
			for _, en := range ents {
				e.Viol("C12", "E7", "temp-file-left", "temp file %s is left after all executions ended", en.Name())
				break
			}
		}
	}
	if e.Detail {
		var rs []string
		for _, x := range o.Execs {
			rs = append(rs, fmt.Sprintf("%s plan=%+v report=%v", x.String(), plansByExec[x.N], x.Report))
		}
		e.Out.Sample = map[string]any{"executions": rs}
	}
	o.Teardown()
}

func (o *OpSim) queueOfExec(x *Exec) string {
	if x.QueueSeen != "" {
		return x.QueueSeen
	}
	h := o.Hooks[x.Hook]
	for _, c := range x.Ctxs {
		for _, s := range h.Sched {
			if s.Name == c.Binding && c.Type == "Schedule" {
				return s.Queue
			}
		}
	}
	return "main"
}
