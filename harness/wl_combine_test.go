package harness

// C07: combining adjacent tasks. A queue is pre-filled with a generated layout; the real
// combiner (the unexported one used by taskHandleHookRun, or its exported twin) runs on the
// head while another task appends tasks concurrently.

import (
	"context"
	"fmt"
	"strconv"
	"strings"

	"github.com/deckhouse/deckhouse/pkg/log"

	bctx "github.com/flant/shell-operator/pkg/hook/binding_context"
	tm "github.com/flant/shell-operator/pkg/hook/task_metadata"
	"github.com/flant/shell-operator/pkg/hook/types"
	metricstorage "github.com/flant/shell-operator/pkg/metric_storage"
	shop "github.com/flant/shell-operator/pkg/shell-operator"
	"github.com/flant/shell-operator/pkg/task"
	"github.com/flant/shell-operator/pkg/task/queue"
	simrt "verifsimrt"
)

func init() {
	register(&Workload{Name: "combine", Run: runCombineWL})
	plans["C07"] = []Part{
		{WL: "combine", Cfg: "prop=C07", Quick: 6000, Thor: 150000},
		{WL: "combine", Cfg: "prop=C07,twin=1", Quick: 3000, Thor: 80000},
		// whole operator: what the hook's context file holds when a merged execution fails and is retried
		{WL: "opsim", Cfg: "prop=C07", Quick: 250, Thor: 6000},
	}
}

type cTask struct {
	ID      string
	Hook    string
	Type    string
	NoMeta  bool
	Ctxs    []string // context names
	Groups  []string // group per context
	Monitor []string
}

func refCombine(q []cTask) (ctxs []string, mons []string, rest []cTask, merged int) {
	head := q[0]
	if head.NoMeta {
		return nil, nil, q, 0
	}
	n := 0
	for _, t := range q[1:] {
		if t.NoMeta || t.Hook != head.Hook || t.Type != head.Type {
			break
		}
		n++
	}
	var all, groups []string
	all = append(all, head.Ctxs...)
	groups = append(groups, head.Groups...)
	mons = append(mons, head.Monitor...)
	for _, t := range q[1 : 1+n] {
		all = append(all, t.Ctxs...)
		groups = append(groups, t.Groups...)
		mons = append(mons, t.Monitor...)
	}
	for i := range all {
		if groups[i] != "" && i+1 < len(all) && groups[i+1] == groups[i] {
			continue
		}
		ctxs = append(ctxs, all[i])
	}
	rest = append([]cTask{head}, q[1+n:]...)
	return ctxs, mons, rest, n
}

func runCombineWL(e *Env) {
	s := e.S
	wl := e.WL
	s.MaxYield = 200000
	s.Focus = []string{"pkg/shell-operator/combine_binding_context.go", "pkg/shell-operator/operator.go", "pkg/task/queue/"}
	s.Policy = simrt.RandomWalk
	s.SwitchDen = []int{3, 8, 30}[wl.Choose(3)]
	twin := e.CfgIs("twin", "1")
	ctx, cancel := context.WithCancel(context.Background())
	nctx := 0
	ntask := 0
	hooks := []string{"h1", "h2", "h3"}[:1+wl.Choose(3)]
	typesL := []task.TaskType{tm.HookRun, tm.HookRun, tm.HookRun, tm.EnableKubernetesBindings, "Other"}
	groupsL := []string{"", "", "g1", "g2"}
	gen := func(sameAsHead *cTask) (cTask, task.Task) {
		ntask++
		ct := cTask{ID: "t" + strconv.Itoa(ntask)}
		ct.Hook = hooks[wl.Choose(len(hooks))]
		ct.Type = string(typesL[wl.Choose(len(typesL))])
		if sameAsHead != nil && wl.Choose(3) != 0 {
			ct.Hook, ct.Type = sameAsHead.Hook, sameAsHead.Type // bias towards mergeable runs
		}
		bt := task.NewTask(task.TaskType(ct.Type))
		bt.Id = ct.ID
		bt.WithQueueName("main")
		if wl.Bias(1, 12) {
			ct.NoMeta = true
			return ct, bt
		}
		var bcs []bctx.BindingContext
		for i, n := 0, 1+wl.Choose(2); i < n; i++ {
			nctx++
			name := "c" + strconv.Itoa(nctx)
			g := groupsL[wl.Choose(len(groupsL))]
			bc := bctx.BindingContext{Binding: name}
			bc.Metadata.Group = g
			bc.Metadata.BindingType = types.OnKubernetesEvent
			bcs = append(bcs, bc)
			ct.Ctxs = append(ct.Ctxs, name)
			ct.Groups = append(ct.Groups, g)
		}
		if wl.Bias(1, 3) {
			for i, n := 0, 1+wl.Choose(2); i < n; i++ {
				ct.Monitor = append(ct.Monitor, "m"+strconv.Itoa(ntask)+"-"+strconv.Itoa(i))
			}
		}
		bt.WithMetadata(tm.HookMetadata{HookName: ct.Hook, BindingContext: bcs, MonitorIDs: ct.Monitor})
		return ct, bt
	}
	var op *shop.ShellOperator
	var q *queue.TaskQueue
	var initial, appended []cTask
	var headTask task.Task
	var res *shop.CombineResult
	var queueAtCall []string
	done, appDone := false, false
	simrt.GoNamed("boot", func() {
		op = shop.NewShellOperator(ctx, shop.WithLogger(log.NewNop()))
		op.TaskQueues = queue.NewTaskQueueSet()
		op.TaskQueues.WithContext(ctx)
		op.TaskQueues.WithMetricStorage(metricstorage.NewMetricStorage(ctx, "p", true, log.NewNop()))
		op.TaskQueues.NewNamedQueue("main", func(task.Task) queue.TaskResult { return queue.TaskResult{Status: queue.Success} })
		q = op.TaskQueues.GetByName("main")
		n := 1 + wl.Choose(8)
		var head *cTask
		for i := 0; i < n; i++ {
			ct, t := gen(head)
			if i == 0 {
				// the head is a task with metadata in most runs
				for ct.NoMeta && wl.Choose(4) != 0 {
					ntask--
					ct, t = gen(nil)
				}
				headTask = t
				h := ct
				head = &h
			}
			initial = append(initial, ct)
			q.AddLast(t)
		}
		s.Arm()
		simrt.GoNamed("appender", func() {
			for i, m := 0, wl.Choose(4); i < m; i++ {
				simrt.Yield("app")
				ct, t := gen(head)
				appended = append(appended, ct)
				q.AddLast(t)
			}
			appDone = true
		})
		simrt.GoNamed("combiner", func() {
			simrt.Yield("comb")
			if twin {
				res = op.CombineBindingContextForHook(q, headTask, nil)
			} else {
				res = shop.VerifCombine(op, q, headTask)
			}
			q.Iterate(func(t task.Task) { queueAtCall = append(queueAtCall, t.GetId()) })
			done = true
		})
	})
	err := s.Run(func() bool { return len(s.Panics) > 0 || (done && appDone) })
	if err != nil {
		e.Out.Truncated = true
	}
	panicsToViolations(e, "C07")
	e.Out.NonTrivial = len(initial) > 1
	if err == nil && len(s.Panics) == 0 {
		var gotCtx, gotMon []string
		if res != nil {
			for _, bc := range res.BindingContexts {
				gotCtx = append(gotCtx, bc.Binding)
			}
			gotMon = res.MonitorIDs
		}
		var final []string
		q.Iterate(func(t task.Task) { final = append(final, t.GetId()) })
		matched := false
		var cands []string
		for i := 0; i <= len(appended); i++ {
			// the scan saw the initial content plus the first i appended tasks
			seen := append(append([]cTask(nil), initial...), appended[:i]...)
			wantCtx, wantMon, rest, merged := refCombine(seen)
			var wantFinal []string
			for _, t := range rest {
				wantFinal = append(wantFinal, t.ID)
			}
			for _, t := range appended[i:] {
				wantFinal = append(wantFinal, t.ID)
			}
			if merged == 0 || initial[0].NoMeta {
				// nothing to merge: the combiner reports nothing and the queue is untouched
				wantCtx, wantMon = nil, nil
			}
			cands = append(cands, fmt.Sprintf("contexts %v monitors %v queue %v", wantCtx, wantMon, wantFinal))
			if fmt.Sprint(gotCtx) == fmt.Sprint(wantCtx) && fmt.Sprint(gotMon) == fmt.Sprint(wantMon) && fmt.Sprint(final) == fmt.Sprint(wantFinal) {
				matched = true
				if merged >= 2 {
					simrt.Count("probe:combine-merged-2-or-more")
				}
				if len(wantCtx) > 0 && countCtx(seen[:1+merged]) > len(wantCtx) {
					simrt.Count("probe:group-compaction")
				}
				if i > 0 && i < len(appended) {
					simrt.Count("probe:append-during-combine")
				}
				break
			}
		}
		if !matched {
			sig := "result-differs"
			if len(gotCtx) == 0 && res != nil {
				sig = "empty-result"
			}
			e.Viol("C07", "M1", sig, "combiner returned contexts %v monitors %v and left queue %v; the reference allows: %s", gotCtx, gotMon, final, strings.Join(cands, " | "))
		}
	}
	if e.Detail {
		e.Out.Sample = map[string]any{"initial_queue": describeCTasks(initial), "appended": describeCTasks(appended), "twin": twin}
	}
	teardown(e, func() { cancel() })
}

func countCtx(ts []cTask) int {
	n := 0
	for _, t := range ts {
		n += len(t.Ctxs)
	}
	return n
}

func describeCTasks(ts []cTask) []string {
	var out []string
	for _, t := range ts {
		if t.NoMeta {
			out = append(out, fmt.Sprintf("%s(no metadata,%s)", t.ID, t.Type))
			continue
		}
		var cs []string
		for i := range t.Ctxs {
			cs = append(cs, t.Ctxs[i]+"/"+t.Groups[i])
		}
		out = append(out, fmt.Sprintf("%s(%s,%s,ctx=%v,mon=%v)", t.ID, t.Hook, t.Type, cs, t.Monitor))
	}
	return out
}
