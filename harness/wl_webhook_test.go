package harness

// C14 (admission) and C15 (conversion): the real chi routers are called in-process by client
// tasks with httptest recorders while the operator runs; hook outcomes are scripted.

import (
	"bytes"
	"encoding/base64"
	"encoding/json"
	"fmt"
	"net/http"
	"net/http/httptest"
	"sort"
	"strconv"
	"strings"
	"time"

	"github.com/flant/shell-operator/pkg/utils/string_helper"
	simrt "verifsimrt"
)

func init() {
	register(&Workload{Name: "admission", Run: runAdmissionWL})
	register(&Workload{Name: "conversion", Run: runConversionWL})
	plans["C14"] = []Part{
		{WL: "admission", Cfg: "prop=C14", Quick: 250, Thor: 6000},
		// real hook processes (bash): failing hooks exit non-zero or die from a signal after writing their response
		{WL: "admission", Cfg: "prop=C14,real=1", Quick: 30, Thor: 600},
	}
	plans["C15"] = []Part{
		{WL: "conversion", Cfg: "prop=C15", Quick: 200, Thor: 5000},
		{WL: "conversion", Cfg: "prop=C15,steer=1", Quick: 200, Thor: 5000},
		{WL: "conversion", Cfg: "prop=C15,steer=1,faults=exit", Quick: 200, Thor: 5000},
		{WL: "conversion", Cfg: "prop=C15,steer=1,faults=exit,clients=1", Quick: 300, Thor: 8000},
		{WL: "conversion", Cfg: "prop=C15,shape=fork,faults=exit,clients=1", Quick: 300, Thor: 8000},
		{WL: "conversion", Cfg: "prop=C15,steer=1,faults=exit,clients=1,mixed=1", Quick: 200, Thor: 6000},
		{WL: "conversion", Cfg: "prop=C15,steer=1,faults=exit,clients=1,settings=1", Quick: 150, Thor: 4000},
	}
}

func webhookPolicy(e *Env, focus ...string) {
	s := e.S
	s.MaxYield = 2000000
	s.MaxStep = 100000
	s.MaxSim = time.Hour
	s.Focus = focus
	if e.WL.Choose(2) == 0 {
		s.Policy = simrt.RandomWalk
		s.SwitchDen = []int{20, 100}[e.WL.Choose(2)]
		s.FocusDen = []int{3, 10}[e.WL.Choose(2)]
	} else {
		s.Policy = simrt.PCT
		sch := s.T.St("sched")
		for i, d := 0, e.WL.Choose(4); i < d; i++ {
			s.ChangePoints = append(s.ChangePoints, 1+sch.Choose(1500))
		}
	}
}

// ---------------------------------------------------------------- C14

type admBinding struct {
	Hook, Name, Kind, Path string
}

type admOutcome struct {
	Exit     int
	Response string // content of the response file ("" = left empty)
	Valid    bool   // Response is a valid response document
	Allowed  bool
	Message  string
	Warnings []string
	Patch    string // raw patch bytes
	BadOther string // malformed metrics / patch output
}

type admRequest struct {
	UID      string
	Path     string
	Body     string
	Known    *admBinding
	BodyOK   bool
	Outcome  *admOutcome
	Code     int
	RespBody string
}

func runAdmissionWL(e *Env) {
	wl := e.WL
	webhookPolicy(e, "pkg/webhook/admission/", "pkg/shell-operator/operator.go", "pkg/hook/")
	names := []string{"val-a.example.com", "val-b.example.com", "mut.example.com", "check.x1.io", "deny-all.example.com"}
	var binds []*admBinding
	var hooks []*HookSpec
	nh := 1 + wl.Choose(2)
	ni := 0
	for i := 0; i < nh; i++ {
		h := &HookSpec{Path: []string{"a.sh", "w/b.sh"}[i], Extra: map[string]any{}}
		var vals, muts []any
		for k, n := 0, 1+wl.Choose(2); k < n && ni < len(names); k++ {
			name := names[ni]
			ni++
			b := map[string]any{"name": name, "rules": []any{map[string]any{"apiGroups": []string{"stable.example.com"}, "apiVersions": []string{"v1"}, "operations": []string{"*"}, "resources": []string{"crontabs"}}}}
			kind := "Validating"
			if wl.Choose(3) == 0 {
				kind = "Mutating"
				muts = append(muts, b)
			} else {
				vals = append(vals, b)
			}
			binds = append(binds, &admBinding{Hook: h.Path, Name: name, Kind: kind, Path: "/hooks/" + string_helper.SafeURLString(name)})
		}
		if len(vals) > 0 {
			h.Extra["kubernetesValidating"] = vals
		}
		if len(muts) > 0 {
			h.Extra["kubernetesMutating"] = muts
		}
		if wl.Choose(2) == 0 {
			h.Sched = []SchedBinding{{Name: "s0", Crontab: "* * * * * *"}}
		}
		if wl.Choose(2) == 0 {
			h.Kube = []KubeBinding{{Name: "k0", Kind: "Pod"}}
		}
		hooks = append(hooks, h)
	}
	o := NewOpSim(e, hooks)
	realHooks := e.CfgIs("real", "1")
	forC04 := e.CfgIs("prop", "C04")
	if realHooks {
		o.UseRealHooks() // real bash processes: exit codes and deaths by signal are the real thing
	}
	api := o.API
	api.ApplyNamespace("default", nil)
	// requests
	var reqs []*admRequest
	nreq := 2 + wl.Choose(7)
	for i := 0; i < nreq; i++ {
		r := &admRequest{UID: "uid-" + strconv.Itoa(i+1)}
		switch wl.Choose(8) {
		case 0:
			r.Path = "/hooks/unknown-hook"
		case 1:
			r.Path = []string{"/", "/hooks", "/other" + binds[0].Path[6:], "/hooks/" + "x/" + binds[0].Path[7:]}[wl.Choose(4)]
		default:
			b := binds[wl.Choose(len(binds))]
			r.Known, r.Path = b, b.Path
		}
		r.BodyOK = true
		r.Body = fmt.Sprintf(`{"apiVersion":"admission.k8s.io/v1","kind":"AdmissionReview","request":{"uid":%q,"kind":{"group":"stable.example.com","version":"v1","kind":"CronTab"},"operation":"CREATE","object":{"apiVersion":"stable.example.com/v1","kind":"CronTab","metadata":{"name":"x%d"}}}}`, r.UID, i)
		switch wl.Choose(10) {
		case 0:
			r.Body, r.BodyOK = `{"apiVersion":"admission.k8s.io/v1","kind":"AdmissionReview"`, false
		case 1:
			r.Body, r.BodyOK = `{"apiVersion":"admission.k8s.io/v1","kind":"AdmissionReview"}`, false
		}
		if r.Known != nil && r.BodyOK {
			oc := &admOutcome{}
			if wl.Bias(1, 5) {
				oc.Exit = 1
			}
			switch wl.Choose(8) {
			case 0: // nothing written
			case 1:
				oc.Response = "{"
			case 2:
				oc.Response = `{"allowed":"yes"}`
			case 3:
				oc.Response, oc.Valid, oc.Allowed, oc.Message = fmt.Sprintf(`{"allowed":false,"message":"denied %s"}`, r.UID), true, false, "denied "+r.UID
			case 4:
				oc.Response, oc.Valid, oc.Allowed = `{"allowed":false}`, true, false
			default:
				oc.Valid, oc.Allowed = true, true
				m := map[string]any{"allowed": true}
				if wl.Choose(2) == 0 {
					oc.Warnings = []string{"w1 " + r.UID, "w2"}
					m["warnings"] = oc.Warnings
				}
				if r.Known.Kind == "Mutating" && wl.Choose(2) == 0 {
					oc.Patch = fmt.Sprintf(`[{"op":"add","path":"/metadata/labels","value":{"by":%q}}]`, r.UID)
					m["patch"] = base64.StdEncoding.EncodeToString([]byte(oc.Patch))
				}
				oc.Response = canonJSON(m)
			}
			if wl.Bias(1, 8) {
				oc.BadOther = []string{"metrics", "patch"}[wl.Choose(2)]
			}
			r.Outcome = oc
		}
		reqs = append(reqs, r)
	}
	byUID := map[string]*admRequest{}
	for _, r := range reqs {
		byUID[r.UID] = r
	}
	uidOf := func(x *Exec) string {
		for _, c := range x.Ctxs {
			if rv, ok := c.Raw["review"].(map[string]any); ok {
				if rq, ok := rv["request"].(map[string]any); ok {
					return fmt.Sprint(rq["uid"])
				}
			}
		}
		return ""
	}
	o.Behave = func(x *Exec) {
		x.Dur = time.Duration(wl.Choose(3)) * 100 * time.Millisecond
		if !isWebhookExec(x) {
			if forC04 && len(x.Ctxs) > 0 && (x.Ctxs[0].Type == "Schedule" || x.Ctxs[0].Type == "Event") && wl.Choose(3) == 0 {
				x.Fail = true // queued executions of a hook that also serves webhooks fail and wait for their retry
				simrt.Count("fault:hook-failed")
			}
			return
		}
		r := byUID[uidOf(x)]
		if r == nil || r.Outcome == nil {
			return
		}
		oc := r.Outcome
		x.Fail = oc.Exit != 0
		x.ExitCode = oc.Exit
		if realHooks && oc.Exit != 0 && wl.Choose(2) == 0 {
			// the process writes its outputs and then dies from a signal: not a zero exit
			x.Signal = []string{"KILL", "TERM", "SEGV"}[wl.Choose(3)]
			simrt.Count("fault:hook-killed-by-signal")
		}
		x.Admission = oc.Response
		switch oc.BadOther {
		case "metrics":
			x.Metrics = `{"name":"m","action":"set"`
		case "patch":
			x.Patch = `{"operation":"Explode"}`
		}
	}
	clientsDone := 0
	nclients := 1 + wl.Choose(2)
	simrt.GoNamed("boot", func() {
		o.Boot(true)
		e.S.Arm()
		if o.BootErr != nil {
			clientsDone = nclients
			return
		}
		for c := 0; c < nclients; c++ {
			c := c
			simrt.GoNamed("client"+strconv.Itoa(c), func() {
				for i, r := range reqs {
					if i%nclients != c {
						continue
					}
					simrt.Yield("client")
					if wl.Bias(1, 2) {
						simrt.Sleep(time.Duration(1+wl.Choose(5)) * 150 * time.Millisecond)
					}
					if forC04 {
						simrt.Sleep(time.Duration(wl.Choose(40)) * 100 * time.Millisecond) // requests spread over the back-offs of failed tasks
					}
					req := httptest.NewRequest(http.MethodPost, r.Path, bytes.NewBufferString(r.Body))
					req.Header.Set("Content-Type", "application/json")
					rec := httptest.NewRecorder()
					o.Op.AdmissionWebhookManager.Handler.Router.ServeHTTP(rec, req)
					r.Code, r.RespBody = rec.Code, rec.Body.String()
					simrt.Logf("admission %s %s -> %d %s", r.UID, r.Path, r.Code, strings.TrimSpace(r.RespBody))
				}
				if forC04 {
					simrt.Sleep(7 * time.Second) // long enough to see the retry of a task that failed last
				}
				clientsDone++
			})
		}
	})
	err := e.S.Run(func() bool { return len(e.S.Panics) > 0 || (o.Booted && clientsDone == nclients && o.inFlight == 0) })
	if err != nil {
		e.Out.Truncated = true
	}
	if o.BootErr != nil {
		e.Out.Infra = "operator assembly failed: " + o.BootErr.Error()
	}
	panicsToViolations(e, "C14")
	lockStarvation(e, "C14")
	e.Out.NonTrivial = len(reqs) > 1
	if err == nil && o.BootErr == nil && len(e.S.Panics) == 0 {
		for _, r := range reqs {
			var review struct {
				Response *struct {
					UID       string   `json:"uid"`
					Allowed   bool     `json:"allowed"`
					Warnings  []string `json:"warnings"`
					Patch     []byte   `json:"patch"`
					PatchType *string  `json:"patchType"`
					Status    *struct {
						Message string `json:"message"`
						Code    int    `json:"code"`
					} `json:"status"`
				} `json:"response"`
			}
			decoded := json.Unmarshal([]byte(r.RespBody), &review) == nil && review.Response != nil
			var execs []*Exec
			for _, x := range o.Execs {
				if isWebhookExec(x) && uidOf(x) == r.UID {
					execs = append(execs, x)
				}
			}
			allowed := r.Code == 200 && decoded && review.Response.Allowed
			desc := fmt.Sprintf("request %s to %s (body ok=%v, outcome %+v) answered %d %s", r.UID, r.Path, r.BodyOK, r.Outcome, r.Code, strings.TrimSpace(r.RespBody))
			mayAllow := r.Known != nil && r.BodyOK && r.Outcome != nil && r.Outcome.Exit == 0 && r.Outcome.Valid && r.Outcome.Allowed && r.Outcome.BadOther == ""
			if allowed && !mayAllow {
				sig := "allowed-without-valid-verdict"
				switch {
				case r.Known == nil:
					sig = "allowed-on-unknown-path"
				case r.Outcome != nil && r.Outcome.Exit != 0:
					sig = "allowed-although-hook-failed"
				case r.Outcome != nil && r.Outcome.BadOther != "":
					sig = "allowed-although-output-malformed"
				case r.Outcome != nil && !r.Outcome.Valid:
					sig = "allowed-on-missing-or-malformed-response"
				}
				e.Viol("C14", "A1", sig, "%s", desc)
			}
			if r.Known != nil && r.BodyOK && !(r.Code == 200 && decoded) {
				// whatever the hook did, a well-formed request to a registered path gets a verdict: an
				// AdmissionReview with a response (a bare HTTP error is no denial; the API server would
				// apply the failure policy instead)
				e.Viol("C14", "A5", "no-verdict", "%s", desc)
			}
			if r.Code == 200 && decoded && review.Response.UID != r.UID {
				e.Viol("C14", "A2", "uid-not-echoed", "%s", desc)
			}
			if r.Code == 200 && !decoded {
				e.Viol("C14", "A2", "undecodable-answer", "%s", desc)
			}
			// the request is handed to the hook and binding that registered the path, and to nobody else
			if len(execs) > 1 {
				e.Viol("C14", "A4", "several-executions", "%s caused %d hook executions", desc, len(execs))
			}
			for _, x := range execs {
				if r.Known == nil || x.Hook != r.Known.Hook || len(x.Ctxs) != 1 || x.Ctxs[0].Binding != r.Known.Name || x.Ctxs[0].Type != r.Known.Kind {
					e.Viol("C14", "A4", "wrong-hook-or-binding", "%s ran %s", desc, x.String())
				}
			}
			if r.Known != nil && r.BodyOK && len(execs) == 0 {
				e.Viol("C14", "A4", "hook-not-run", "%s: the registered hook %s was not run", desc, r.Known.Hook)
			}
			if mayAllow {
				simrt.Count("probe:admission-allowed-verdict")
				if !allowed {
					e.Viol("C14", "A3", "valid-allow-not-relayed", "%s", desc)
					continue
				}
				if fmt.Sprint(review.Response.Warnings) != fmt.Sprint(r.Outcome.Warnings) {
					e.Viol("C14", "A3", "warnings-not-relayed", "%s", desc)
				}
				if string(review.Response.Patch) != r.Outcome.Patch {
					e.Viol("C14", "A3", "patch-not-relayed", "%s", desc)
				}
				if r.Outcome.Patch != "" && (review.Response.PatchType == nil || *review.Response.PatchType != "JSONPatch") {
					e.Viol("C14", "A3", "patch-type", "%s", desc)
				}
			} else {
				simrt.Count("probe:admission-denied-case")
				if r.Known != nil && r.BodyOK && r.Outcome != nil && r.Outcome.Exit == 0 && r.Outcome.Valid && !r.Outcome.Allowed && r.Outcome.BadOther == "" && r.Outcome.Message != "" {
					if !decoded || review.Response.Status == nil || review.Response.Status.Message != r.Outcome.Message {
						e.Viol("C14", "A3", "message-not-relayed", "%s", desc)
					}
				}
			}
		}
		oracleC09(&OpRun{e: e, o: o, sc: scenarioOf(hooks)})
		if forC04 {
			// a failed queued task keeps its place and its contexts while webhook requests for the same hook are served
			oracleC04(&OpRun{e: e, o: o, sc: scenarioOf(hooks)})
		}
	}
	if e.Detail {
		var rs []string
		for _, r := range reqs {
			rs = append(rs, fmt.Sprintf("%s %s bodyOK=%v outcome=%+v -> %d %s", r.UID, r.Path, r.BodyOK, r.Outcome, r.Code, strings.TrimSpace(r.RespBody)))
		}
		e.Out.Sample = map[string]any{"bindings": fmt.Sprint(derefAdm(binds)), "requests": rs, "executions": o.DescribeExecs(40)}
	}
	o.Teardown()
}

func derefAdm(b []*admBinding) []admBinding {
	var out []admBinding
	for _, x := range b {
		out = append(out, *x)
	}
	return out
}

func scenarioOf(hooks []*HookSpec) *Scenario {
	sc := &Scenario{Hooks: hooks, binds: map[string]*bindRef{}, jq: map[string]*projector{}}
	for _, h := range hooks {
		for i := range h.Kube {
			sc.binds[h.Path+"|"+h.Kube[i].Name] = &bindRef{Hook: h.Path, Kube: &h.Kube[i]}
		}
		for i := range h.Sched {
			sc.binds[h.Path+"|"+h.Sched[i].Name] = &bindRef{Hook: h.Path, Sched: &h.Sched[i]}
		}
	}
	return sc
}

// ---------------------------------------------------------------- C15

const convGroup = "stable.example.com"
const convCRD = "crontabs.stable.example.com"

type convRule struct {
	Hook, Binding string
	From, To      string // as spelled in the configuration
}

func shortVer(v string) string {
	if i := strings.IndexByte(v, '/'); i >= 0 {
		return v[i+1:]
	}
	return v
}

type convReq struct {
	S0, S1   int64 // event sequence numbers around the HTTP call
	UID      string
	From, To string // short versions
	NObj     int
	Code     int
	RespBody string
}

func runConversionWL(e *Env) {
	wl := e.WL
	webhookPolicy(e, "pkg/webhook/conversion/", "pkg/shell-operator/operator.go", "pkg/hook/")
	steer := e.CfgIs("steer", "1")
	vers := []string{"v1", "v2", "v3", "v1beta1", "v10", "v1alpha1"}
	if steer {
		// away from the known finding (version names that contain another version name)
		vers = []string{"va", "vb", "vc", "vd", "ve", "vf"}
	}
	fork := e.CfgIs("shape", "fork")
	mixed := e.CfgIs("mixed", "1")
	if fork {
		vers = []string{"va", "vb", "vc", "vd", "ve", "vf", "vg", "vh"}
	} else {
		vers = vers[:3+wl.Choose(len(vers)-2)]
	}
	spell := func(v string) string {
		if wl.Choose(2) == 0 {
			return convGroup + "/" + v
		}
		return v
	}
	var rules []convRule
	seenEdge := map[string]bool{}
	nr := 1 + wl.Choose(7)
	nh := 1 + wl.Choose(2)
	hookPathsC := []string{"conv-a.sh", "conv-b.sh"}
	var leaves []string
	if fork {
		// a linear chain of L steps from va, then K leaves behind its end: several declared paths
		// share a long prefix
		nr = 0
		L, K := 2+wl.Choose(3), 2+wl.Choose(2)
		for i := 0; i < L; i++ {
			hi := wl.Choose(nh)
			rules = append(rules, convRule{Hook: hookPathsC[hi], Binding: "conv" + strconv.Itoa(hi), From: spell(vers[i]), To: spell(vers[i+1])})
		}
		for k := 0; k < K; k++ {
			hi := wl.Choose(nh)
			rules = append(rules, convRule{Hook: hookPathsC[hi], Binding: "conv" + strconv.Itoa(hi), From: spell(vers[L]), To: spell(vers[L+1+k])})
			leaves = append(leaves, vers[L+1+k])
		}
		vers = vers[:L+1+K]
	}
	for i := 0; i < nr; i++ {
		a, b := vers[wl.Choose(len(vers))], vers[wl.Choose(len(vers))]
		if wl.Bias(2, 3) && len(rules) > 0 {
			// chain on: start where the previous rule ended
			a = shortVer(rules[len(rules)-1].To)
		}
		if a == b || seenEdge[a+">"+b] {
			continue
		}
		seenEdge[a+">"+b] = true
		hi := wl.Choose(nh)
		rules = append(rules, convRule{Hook: hookPathsC[hi], Binding: "conv" + strconv.Itoa(hi), From: spell(a), To: spell(b)})
	}
	if len(rules) == 0 {
		rules = append(rules, convRule{Hook: hookPathsC[0], Binding: "conv0", From: vers[0], To: vers[1]})
	}
	var hooks []*HookSpec
	for hi := 0; hi < nh; hi++ {
		var convs []any
		for _, r := range rules {
			if r.Hook == hookPathsC[hi] {
				convs = append(convs, map[string]any{"fromVersion": r.From, "toVersion": r.To})
			}
		}
		if len(convs) == 0 {
			continue
		}
		cb := map[string]any{"name": "conv" + strconv.Itoa(hi), "crdName": convCRD, "conversions": convs}
		h := &HookSpec{Path: hookPathsC[hi]}
		if mixed {
			// the hook also has a schedule binding in the main queue (sometimes in the same group):
			// its tasks wait at the head of that queue while conversion requests arrive
			sb := SchedBinding{Name: "tick", Crontab: "* * * * * *"}
			if wl.Choose(2) == 0 {
				sb.Group = "g"
				cb["group"] = "g"
			}
			h.Sched = []SchedBinding{sb}
		}
		h.Extra = map[string]any{"kubernetesCustomResourceConversion": []any{cb}}
		if e.CfgIs("settings", "1") {
			// a rate-limited conversion hook: legal, unusual; steps wait for the limiter and still all run
			h.Extra["settings"] = map[string]any{"executionMinInterval": []string{"1500ms", "2s", "3s"}[wl.Choose(3)], "executionBurst": 1 + wl.Choose(2)}
		}
		hooks = append(hooks, h)
	}
	o := NewOpSim(e, hooks)
	o.API.ApplyNamespace("default", nil)
	// reference: reachability over the declared rules, versions equal modulo the group prefix
	next := map[string][]convRule{}
	for _, r := range rules {
		next[shortVer(r.From)] = append(next[shortVer(r.From)], r)
	}
	reach := func(a, b string) bool {
		seen := map[string]bool{a: true}
		q := []string{a}
		for len(q) > 0 {
			v := q[0]
			q = q[1:]
			for _, r := range next[v] {
				t := shortVer(r.To)
				if t == b {
					return true
				}
				if !seen[t] {
					seen[t] = true
					q = append(q, t)
				}
			}
		}
		return false
	}
	var reqs []*convReq
	nreq := 1 + wl.Choose(6)
	for i := 0; i < nreq; i++ {
		a, b := vers[wl.Choose(len(vers))], vers[wl.Choose(len(vers))]
		if fork && wl.Bias(2, 3) {
			a, b = vers[wl.Choose(2)], leaves[wl.Choose(len(leaves))]
		}
		if a == b {
			continue
		}
		reqs = append(reqs, &convReq{UID: "c-" + strconv.Itoa(i+1), From: a, To: b, NObj: 1 + wl.Choose(3)})
	}
	// per-step outcomes: keyed by request uid and step ordinal, drawn at execution time
	type stepOutcome struct {
		Kind string // ok | exit | message | count
		Msg  string
	}
	stepLog := map[string][]string{} // uid -> steps "from>to@hook"
	var foreign []string             // executions with a Conversion context and anything else
	outcomes := map[string][]stepOutcome{}
	o.Behave = func(x *Exec) {
		x.Dur = time.Duration(wl.Choose(3)) * 50 * time.Millisecond
		var c Ctx
		nconv := 0
		for _, cc := range x.Ctxs {
			if cc.Type == "Conversion" {
				c = cc
				nconv++
			}
		}
		if nconv == 0 {
			if mixed {
				// executions of the schedule binding: slow, sometimes failing (back-off at the head of main)
				x.Dur = []time.Duration{0, 400 * time.Millisecond, 1500 * time.Millisecond}[wl.Choose(3)]
				x.Fail = wl.Choose(4) == 0
				for _, cc := range x.Ctxs {
					if cc.Type != "Schedule" && cc.Type != "Group" {
						x.Fail = false
					}
				}
			}
			return
		}
		if nconv != 1 || len(x.Ctxs) != 1 {
			foreign = append(foreign, fmt.Sprintf("execution #%d of %s received %s", x.N, x.Hook, strings.Join(identities(x), "; ")))
		}
		rv, _ := c.Raw["review"].(map[string]any)
		rq, _ := rv["request"].(map[string]any)
		uid := fmt.Sprint(rq["uid"])
		from, to := fmt.Sprint(c.Raw["fromVersion"]), fmt.Sprint(c.Raw["toVersion"])
		objs, _ := rq["objects"].([]any)
		var inVers []string
		for _, ob := range objs {
			if m, ok := ob.(map[string]any); ok {
				inVers = append(inVers, shortVer(fmt.Sprint(m["apiVersion"])))
			}
		}
		stepLog[uid] = append(stepLog[uid], fmt.Sprintf("%s>%s@%s in=%v", shortVer(from), shortVer(to), x.Hook, inVers))
		oc := stepOutcome{Kind: "ok"}
		switch k := e.FL.Choose(8); {
		case k == 0:
			oc.Kind = "exit"
		case k == 1 && !e.CfgIs("faults", "exit"):
			oc = stepOutcome{"message", "cannot convert " + uid + " at " + shortVer(from)}
		case k == 2 && !e.CfgIs("faults", "exit"):
			oc.Kind = "count"
		case k == 3:
			oc.Kind = "empty" // exits 0 and writes nothing to the response file
		}
		outcomes[uid] = append(outcomes[uid], oc)
		var conv []any
		for i, ob := range objs {
			m, _ := ob.(map[string]any)
			n := map[string]any{}
			for k, v := range m {
				n[k] = v
			}
			n["apiVersion"] = convGroup + "/" + shortVer(to)
			if oc.Kind == "count" && i == 0 {
				continue
			}
			conv = append(conv, n)
		}
		switch oc.Kind {
		case "empty":
			simrt.Count("fault:conversion-empty-response")
		case "exit":
			x.Fail = true
			simrt.Count("fault:conversion-hook-exit")
		case "message":
			x.Conversion = canonJSON(map[string]any{"failedMessage": oc.Msg})
			simrt.Count("fault:conversion-hook-message")
		default:
			if oc.Kind == "count" {
				simrt.Count("fault:conversion-wrong-count")
			}
			x.Conversion = canonJSON(map[string]any{"convertedObjects": conv})
		}
	}
	clientsDone := 0
	nclients := 1 + wl.Choose(2)
	if e.CfgIs("clients", "1") {
		nclients = 1
	}
	simrt.GoNamed("boot", func() {
		o.Boot(true)
		e.S.Arm()
		if o.BootErr != nil {
			clientsDone = nclients
			return
		}
		for c := 0; c < nclients; c++ {
			c := c
			simrt.GoNamed("client"+strconv.Itoa(c), func() {
				for i, r := range reqs {
					if i%nclients != c {
						continue
					}
					simrt.Yield("client")
					if mixed {
						simrt.Sleep(time.Duration(wl.Choose(30)) * 100 * time.Millisecond)
					}
					var objs []string
					for k := 0; k < r.NObj; k++ {
						objs = append(objs, fmt.Sprintf(`{"apiVersion":"%s/%s","kind":"CronTab","metadata":{"name":"o-%s-%d"}}`, convGroup, r.From, r.UID, k))
					}
					body := fmt.Sprintf(`{"apiVersion":"apiextensions.k8s.io/v1","kind":"ConversionReview","request":{"uid":%q,"desiredAPIVersion":"%s/%s","objects":[%s]}}`, r.UID, convGroup, r.To, strings.Join(objs, ","))
					req := httptest.NewRequest(http.MethodPost, "/"+convCRD, bytes.NewBufferString(body))
					req.Header.Set("Content-Type", "application/json")
					rec := httptest.NewRecorder()
					r.S0 = e.Seq()
					o.Op.ConversionWebhookManager.Handler.Router.ServeHTTP(rec, req)
					r.S1 = e.Seq()
					r.Code, r.RespBody = rec.Code, rec.Body.String()
					simrt.Logf("conversion %s %s->%s -> %d %s", r.UID, r.From, r.To, r.Code, strings.TrimSpace(r.RespBody))
				}
				clientsDone++
			})
		}
	})
	err := e.S.Run(func() bool { return len(e.S.Panics) > 0 || (o.Booted && clientsDone == nclients && o.inFlight == 0) })
	if err != nil {
		e.Out.Truncated = true
	}
	confusable := false
	for _, a := range vers {
		for _, b := range vers {
			if a != b && strings.Contains(a, b) {
				confusable = true
			}
		}
	}
	if o.BootErr != nil {
		e.Out.Infra = "operator assembly failed: " + o.BootErr.Error()
	}
	panicsToViolations(e, "C15")
	e.Out.NonTrivial = len(rules) > 1 && len(reqs) > 0
	if err == nil && o.BootErr == nil && len(e.S.Panics) == 0 {
		for _, f := range foreign {
			e.Viol("C15", "V7", "foreign-contexts-in-conversion-step", "a conversion step is an execution of its own with the one Conversion context: %s", f)
		}
		for _, r := range reqs {
			var review struct {
				Response *struct {
					UID     string            `json:"uid"`
					Objects []json.RawMessage `json:"convertedObjects"`
					Result  struct {
						Status  string `json:"status"`
						Message string `json:"message"`
					} `json:"result"`
				} `json:"response"`
			}
			if json.Unmarshal([]byte(r.RespBody), &review) != nil || review.Response == nil || r.Code != 200 {
				e.Viol("C15", "V0", "undecodable-answer", "request %s %s->%s answered %d %s", r.UID, r.From, r.To, r.Code, r.RespBody)
				continue
			}
			steps := stepLog[r.UID]
			ocs := outcomes[r.UID]
			desc := fmt.Sprintf("request %s %s->%s (%d objects), rules %v: steps %v outcomes %+v, answer %s %q with %d objects", r.UID, r.From, r.To, r.NObj, rules, steps, ocs, review.Response.Result.Status, review.Response.Result.Message, len(review.Response.Objects))
			success := review.Response.Result.Status == "Success"
			overlapped := false
			for _, q := range reqs {
				if q != r && q.S0 < r.S1 && r.S0 < q.S1 {
					overlapped = true
				}
			}
			// root cause of a wrong path: version names of which one contains another (NextRules matches
			// by substring), else a concurrent request (PathsCache is shared and unlocked), else unknown
			pathSig := func(symptom string) string {
				switch {
				case confusable:
					return "substring-version-match"
				case overlapped:
					return "concurrent-requests"
				}
				return symptom
			}
			_ = overlapped
			if !reach(r.From, r.To) {
				simrt.Count("probe:conversion-no-path")
				if success {
					e.Viol("C15", "V1", pathSig("success-without-path"), "%s", desc)
				}
				if len(steps) > 0 {
					e.Viol("C15", "V1", pathSig("hook-invoked-without-path"), "%s", desc)
				}
				continue
			}
			simrt.Count("probe:conversion-path-exists")
			if len(steps) == 0 {
				e.Viol("C15", "V2", pathSig("path-not-found"), "%s", desc)
				continue
			}
			// the invoked steps form a declared sequence starting at A with matching joints, each fed the previous output
			cur := r.From
			okChain := true
			firstFail := -1
			for i, st := range steps {
				var f, t, hk, in string
				p := strings.SplitN(st, " in=", 2)
				in = p[1]
				ft := strings.SplitN(p[0], "@", 2)
				hk = ft[1]
				f, t = strings.SplitN(ft[0], ">", 2)[0], strings.SplitN(ft[0], ">", 2)[1]
				declared := false
				for _, ru := range rules {
					if shortVer(ru.From) == f && shortVer(ru.To) == t && ru.Hook == hk {
						declared = true
					}
				}
				if !declared {
					e.Viol("C15", "V3", pathSig("undeclared-step"), "step %d (%s) is not a declared rule of that hook; %s", i, st, desc)
					okChain = false
					break
				}
				if f != cur {
					e.Viol("C15", "V3", pathSig("joint-mismatch"), "step %d (%s) does not start at %s where the previous step ended; %s", i, st, cur, desc)
					okChain = false
					break
				}
				if firstFail < 0 && !strings.Contains(in, f) && in != "[]" {
					e.Viol("C15", "V3", pathSig("step-input"), "step %d (%s) did not receive the previous step's objects; %s", i, st, desc)
				}
				if firstFail >= 0 {
					e.Viol("C15", "V4", "step-after-failed-step:"+ocs[firstFail].Kind, "step %d (%s) ran although step %d had failed (%s); %s", i, st, firstFail, ocs[firstFail].Kind, desc)
					okChain = false
					break
				}
				if ocs[i].Kind != "ok" {
					firstFail = i
				}
				cur = t
			}
			if !okChain {
				continue
			}
			if firstFail < 0 && cur != r.To {
				// every invoked step succeeded, yet the sequence ends elsewhere: not a chain from A to B
				e.Viol("C15", "V3", pathSig("chain-does-not-reach-target"), "the invoked steps end at %s, not at %s; %s", cur, r.To, desc)
				continue
			}
			allOK := firstFail < 0 && cur == r.To
			if success != allOK {
				sig := "success-although-step-failed"
				if allOK {
					sig = "failed-although-all-steps-succeeded" // not a symptom of a wrong path: never attributed to the path cache
				} else if firstFail < 0 {
					sig = pathSig("chain-does-not-reach-target")
				} else {
					sig += ":" + ocs[firstFail].Kind
				}
				e.Viol("C15", "V5", sig, "%s", desc)
				continue
			}
			if success && len(review.Response.Objects) != r.NObj {
				e.Viol("C15", "V5", "object-count", "%s", desc)
			}
			if success {
				// the answer carries this request's objects (the names say which request they belong to)
				for _, raw := range review.Response.Objects {
					var ob struct {
						Metadata struct {
							Name string `json:"name"`
						} `json:"metadata"`
					}
					_ = json.Unmarshal(raw, &ob)
					if !strings.HasPrefix(ob.Metadata.Name, "o-"+r.UID+"-") {
						e.Viol("C15", "V8", "objects-of-another-request", "the answer holds object %q; %s", ob.Metadata.Name, desc)
						break
					}
				}
			}
			if !success && firstFail >= 0 && ocs[firstFail].Kind == "message" && review.Response.Result.Message != ocs[firstFail].Msg {
				e.Viol("C15", "V6", "hook-message-lost", "the failing hook said %q; %s", ocs[firstFail].Msg, desc)
			}
		}
	}
	if e.Detail {
		var rs []string
		for _, r := range reqs {
			rs = append(rs, fmt.Sprintf("%s %s->%s n=%d -> %d %s | steps %v", r.UID, r.From, r.To, r.NObj, r.Code, strings.TrimSpace(r.RespBody), stepLog[r.UID]))
		}
		var rl []string
		for _, r := range rules {
			rl = append(rl, fmt.Sprintf("%s:%s->%s", r.Hook, r.From, r.To))
		}
		sort.Strings(rl)
		e.Out.Sample = map[string]any{"rules": rl, "requests": rs}
	}
	o.Teardown()
}
