package harness

import (
	"os"
	"testing"

	hookconfig "github.com/flant/shell-operator/pkg/hook/config"
	objectpatch "github.com/flant/shell-operator/pkg/kube/object_patch"
)

// TestMain pins process-level lazily initialised state of the code under test, so that the first
// run of a process does not differ from later ones: object_patch keeps a package-level schema
// cache that is filled on first use (and is written without a lock).
func TestMain(m *testing.M) {
	for name := range objectpatch.Schemas {
		objectpatch.GetSchema(name)
	}
	// the hook configuration schemas are cached the same way (pkg/hook/config is instrumented since
	// round 2: a first load executes yield points that later loads do not)
	for name := range hookconfig.Schemas {
		hookconfig.GetSchema(name)
	}
	os.Exit(m.Run())
}
