package harness

// Monitor-level workload (C01 a, C08 informer level): the real kubeEventsManager +
// monitor(s) + resourceInformers + namespace informer on SimAPIServer, with a mutator,
// a synchronizer (Snapshot, optional hook time, EnableKubeEventCb), optional other
// snapshot readers and the consumer of KubeEventCh.

import (
	"context"
	"fmt"
	"strconv"
	"strings"
	"time"

	"github.com/deckhouse/deckhouse/pkg/log"
	"github.com/flant/kube-client/fake"
	metav1 "k8s.io/apimachinery/pkg/apis/meta/v1"

	kem "github.com/flant/shell-operator/pkg/kube_events_manager"
	kemtypes "github.com/flant/shell-operator/pkg/kube_events_manager/types"
	metricstorage "github.com/flant/shell-operator/pkg/metric_storage"
	simrt "verifsimrt"
)

func init() {
	register(&Workload{Name: "monitor", Run: runMonitorWL})
	plans["C01"] = []Part{
		{WL: "monitor", Cfg: "", Quick: 2500, Thor: 60000},
		{WL: "monitor", Cfg: "k=300", Quick: 2500, Thor: 60000},
		{WL: "monitor", Cfg: "k=600", Quick: 2500, Thor: 60000},
		{WL: "monitor", Cfg: "reader2=1", Quick: 1200, Thor: 30000},
		{WL: "monitor", Cfg: "t=T1", Quick: 1200, Thor: 30000},
	}
	plans["C08"] = []Part{
		{WL: "monitor", Cfg: "unlock=imm,prop=C08", Quick: 2000, Thor: 50000},
		{WL: "monitor", Cfg: "unlock=imm,prop=C08,steer=obj", Quick: 2000, Thor: 50000},
		{WL: "monitor", Cfg: "unlock=imm,prop=C08,t=T1", Quick: 1000, Thor: 30000},
		{WL: "monitor", Cfg: "unlock=imm,prop=C08,t=T1,steer=obj", Quick: 1000, Thor: 30000},
	}
}

type monDelivered struct {
	Seq  int64
	Type string
	Key  string
	RV   uint64
	Proj string // canonical JSON of FilterResult as stored (in-process), "" without filter
}

type monView struct {
	S0, S1 int64
	Objs   map[string]monDelivered // key -> state in the view
}

// jq filters used by the informer-level generator: object-valued results only in the
// C01 workload (the projection must identify a state); C08 adds the other shapes.
var monFiltersObj = []string{"", "", `{"v": .data.v}`, `{"name": .metadata.name, "v": .data.v}`}
var monFiltersAll = []string{"", `{"v": .data.v}`, `.data.v`, `[.data.v, .data.w]`, `.data`, `.metadata.labels`, `.data.missing`, `{"n": .metadata.name} + {"v": .data.v}`, `.data.v, .data.w`}

func runMonitorWL(e *Env) {
	s := e.S
	wl := e.WL
	faults := e.CfgIs("t", "T1")
	reader2 := e.CfgIs("reader2", "1")
	immediate := e.CfgIs("unlock", "imm") // C08: unlocked from the start, exact emission check
	prop := e.Cfg["prop"]
	if prop == "" {
		prop = "C01"
	}
	s.MaxYield = 400000
	s.MaxSim = 12 * time.Hour
	s.Focus = []string{"pkg/kube_events_manager/resource_informer.go", "pkg/kube_events_manager/monitor.go"}
	if wl.Choose(4) == 3 {
		s.Policy = simrt.RandomWalk
		s.SwitchDen = []int{8, 30, 100}[wl.Choose(3)]
		s.FocusDen = []int{2, 3, 6}[wl.Choose(3)]
	} else {
		s.Policy = simrt.PCT
		d := wl.Choose(3) // change points
		k := e.CfgInt("k", 120)
		sc := e.S.T.St("sched")
		for i := 0; i < d; i++ {
			s.ChangePoints = append(s.ChangePoints, 1+sc.Choose(k))
		}
	}
	ctx, cancel := context.WithCancel(context.Background())
	fc := fake.NewFakeCluster(fake.ClusterVersionV119)
	api := NewAPIServer(e, fc)
	obs := NewObserver(e)
	api.Obs = obs

	// ---- configuration
	nsMode := wl.Choose(3) // 0 all namespaces, 1 static names, 2 namespace label selector
	var filter string
	if immediate && e.CfgIs("steer", "obj") {
		// steering away from the known finding C08/T2/jq:non-object-result: object-valued programs only
		fs := []string{"", `{"v": .data.v}`, `.data`, `{"n": .metadata.name} + {"v": .data.v}`, `{"v": .data.v, "w": .data.w}`, `.data | {v}`}
		filter = fs[wl.Choose(len(fs))]
	} else if immediate {
		filter = monFiltersAll[wl.Choose(len(monFiltersAll))]
	} else {
		filter = monFiltersObj[wl.Choose(len(monFiltersObj))]
	}
	keepFull := wl.Choose(3) != 2 || filter == ""
	evChoices := [][]string{nil, nil, {"Added", "Modified", "Deleted"}, {"Added"}, {"Modified"}, {"Deleted"}, {"Added", "Deleted"}, {"Modified", "Deleted"}, {"Added", "Modified"}, {}}
	events := evChoices[wl.Choose(len(evChoices))]
	effEvents := events
	if events == nil {
		effEvents = []string{"Added", "Modified", "Deleted"}
	}
	useNameSel := wl.Choose(4) == 3
	proj := newProjector(filter)

	mc := &kem.MonitorConfig{ApiVersion: "v1", Kind: "Pod", KeepFullObjectsInMemory: keepFull, JqFilter: filter}
	mc.Metadata.MonitorId = "m1"
	mc.Metadata.DebugName = "m1"
	mc.Metadata.LogLabels = map[string]string{"hook": "h"}
	mc.Metadata.MetricLabels = map[string]string{}
	if events == nil {
		mc.WithEventTypes(nil)
	} else {
		ts := []kemtypes.WatchEventType{}
		for _, t := range events {
			ts = append(ts, kemtypes.WatchEventType(t))
		}
		mc.WithEventTypes(ts)
	}
	mc.Logger = log.NewNop()
	switch nsMode {
	case 1:
		mc.WithNamespaceSelector(&kemtypes.NamespaceSelector{NameSelector: &kemtypes.NameSelector{MatchNames: []string{"default", "nsa"}}})
	case 2:
		mc.WithNamespaceSelector(&kemtypes.NamespaceSelector{LabelSelector: &metav1.LabelSelector{MatchLabels: map[string]string{"env": "prod"}}})
	}
	if useNameSel {
		mc.WithNameSelector(&kemtypes.NameSelector{MatchNames: []string{"p0", "p1"}})
	}
	namespaces := []string{"default", "nsa", "nsb"}
	nsLabelled := map[string]bool{}
	matchesNS := func(ns string) bool {
		switch nsMode {
		case 1:
			return ns == "default" || ns == "nsa"
		case 2:
			return nsLabelled[ns]
		}
		return true
	}
	matchesName := func(n string) bool { return !useNameSel || n == "p0" || n == "p1" }

	// ---- writes
	nwrite := 0
	write := func(ns, name string, del bool, touchOnlyOutside bool) {
		nwrite++
		if del {
			api.Delete(gvrPods, ns, name)
			return
		}
		data := map[string]any{"v": strconv.Itoa(nwrite), "w": "w" + strconv.Itoa(nwrite%2), "x": strconv.Itoa(nwrite)}
		if touchOnlyOutside {
			// change only data.x: keep v and w of the current state when there is one
			if cur := api.Get(gvrPods, ns, name); cur != nil {
				if d, ok := cur.Object["data"].(map[string]any); ok {
					data["v"], data["w"] = d["v"], d["w"]
				}
			}
		}
		api.Apply(gvrPods, mkObj("Pod", ns, name, nil, map[string]any{"data": data}))
	}
	api.ApplyNamespace("default", nil)
	if wl.Choose(2) == 0 {
		api.ApplyNamespace("nsa", map[string]string{"env": "prod"})
		nsLabelled["nsa"] = true
	} else {
		api.ApplyNamespace("nsa", nil)
	}
	nsbLater := wl.Choose(3) // 0 never, 1 created labelled later, 2 exists unlabelled, labelled later
	if nsbLater == 2 {
		api.ApplyNamespace("nsb", nil)
	}
	ninit := wl.Choose(4)
	existingNS := func() []string {
		var out []string
		for _, n := range namespaces {
			if api.Get(gvrNS, "", n) != nil {
				out = append(out, n)
			}
		}
		return out
	}
	randObj := func() (string, string) {
		nss := existingNS()
		return nss[wl.Choose(len(nss))], "p" + strconv.Itoa(wl.Choose(3))
	}
	for i := 0; i < ninit; i++ {
		ns, n := randObj()
		write(ns, n, false, false)
	}

	var mgr kem.KubeEventsManager
	var delivered []monDelivered
	var view *monView
	var reader2Seqs []int64
	mutDone, syncDone, booted := false, false, false
	unlockSeq := int64(0)
	armSeq := int64(0)
	var bootErr error

	projOf := func(o kemtypes.ObjectAndFilterResult) string {
		if filter == "" {
			return ""
		}
		return canonJSON(o.FilterResult)
	}
	keyOf := func(o kemtypes.ObjectAndFilterResult) (string, uint64) {
		if o.Object != nil {
			return o.Object.GetNamespace() + "/" + o.Object.GetName(), rvOf(o.Object)
		}
		// ResourceId: namespace/kind/name
		parts := strings.Split(o.Metadata.ResourceId, "/")
		if len(parts) == 3 {
			return parts[0] + "/" + parts[2], 0
		}
		return o.Metadata.ResourceId, 0
	}

	simrt.GoNamed("boot", func() {
		kem.DefaultFactoryStore = kem.NewFactoryStore()
		m := kem.NewKubeEventsManager(ctx, fc.Client, log.NewNop())
		m.WithMetricStorage(metricstorage.NewMetricStorage(ctx, "p", true, log.NewNop()))
		if err := m.AddMonitor(mc); err != nil {
			bootErr = err
			booted, mutDone, syncDone = true, true, true
			return
		}
		mgr = m
		slowConsumer := wl.Choose(3) == 2 // the events handler is busy: senders queue up on the capacity-1 channel
		simrt.GoNamed("consumer", func() {
			for {
				select {
				case ev := <-m.Ch():
					simrt.Yield("consumer")
					if slowConsumer {
						simrt.Sleep(time.Duration(1+wl.Choose(3)) * 10 * time.Millisecond)
						simrt.Count("probe:slow-consumer-receive")
					}
					for i, o := range ev.Objects {
						k, rv := keyOf(o)
						t := ""
						if i < len(ev.WatchEvents) {
							t = string(ev.WatchEvents[i])
						} else if len(ev.WatchEvents) > 0 {
							t = string(ev.WatchEvents[0])
						}
						d := monDelivered{Seq: e.Seq(), Type: t, Key: k, RV: rv, Proj: projOf(o)}
						delivered = append(delivered, d)
						simrt.Logf("delivered %s %s@%d", d.Type, d.Key, d.RV)
					}
				case <-ctx.Done():
					return
				}
			}
		})
		if immediate {
			m.GetMonitor("m1").EnableKubeEventCb()
			unlockSeq = e.Seq()
			syncDone = true
		}
		m.StartMonitor("m1")
		s.Arm()
		armSeq = e.Seq()
		simrt.GoNamed("mutator", func() {
			n := 3 + wl.Choose(7)
			for i := 0; i < n; i++ {
				simrt.Yield("mut")
				if wl.Bias(1, 3) {
					simrt.Sleep(time.Duration(1+wl.Choose(6)) * 20 * time.Millisecond)
				}
				switch op := wl.Choose(12); {
				case op == 11 && nsbLater == 1 && api.Get(gvrNS, "", "nsb") == nil:
					api.ApplyNamespace("nsb", map[string]string{"env": "prod"})
					nsLabelled["nsb"] = true
					simrt.Count("probe:namespace-added-after-start")
				case op == 11 && nsbLater == 2 && !nsLabelled["nsb"]:
					api.ApplyNamespace("nsb", map[string]string{"env": "prod"})
					nsLabelled["nsb"] = true
					simrt.Count("probe:namespace-labelled-after-start")
				case op >= 9:
					ns, name := randObj()
					write(ns, name, true, false)
				case op == 8:
					ns, name := randObj()
					write(ns, name, false, true)
				default:
					ns, name := randObj()
					write(ns, name, false, false)
				}
			}
			mutDone = true
		})
		if !immediate {
			simrt.GoNamed("syncer", func() {
				simrt.Yield("sync")
				if wl.Bias(1, 3) {
					simrt.Sleep(time.Duration(1+wl.Choose(3)) * 20 * time.Millisecond)
				}
				v := &monView{S0: e.Seq(), Objs: map[string]monDelivered{}}
				for _, o := range m.GetMonitor("m1").Snapshot() {
					k, rv := keyOf(o)
					v.Objs[k] = monDelivered{Key: k, RV: rv, Proj: projOf(o)}
				}
				v.S1 = e.Seq()
				view = v
				simrt.Logf("view %v", sortedKeys(v.Objs))
				simrt.Yield("sync")
				if wl.Choose(3) != 0 {
					simrt.Sleep(time.Duration(1+wl.Choose(8)) * 25 * time.Millisecond) // the Synchronization hook runs
				}
				m.GetMonitor("m1").EnableKubeEventCb()
				unlockSeq = e.Seq()
				syncDone = true
			})
			if reader2 {
				simrt.GoNamed("reader2", func() {
					n := 1 + wl.Choose(2)
					for i := 0; i < n; i++ {
						simrt.Yield("r2")
						if wl.Choose(2) == 1 {
							simrt.Sleep(time.Duration(1+wl.Choose(4)) * 15 * time.Millisecond)
						}
						r0 := e.Seq()
						_ = m.GetMonitor("m1").Snapshot()
						reader2Seqs = append(reader2Seqs, r0, e.Seq())
					}
				})
			}
		}
		if faults {
			simrt.GoNamed("faulter", func() {
				n := 1 + e.FL.Choose(2)
				for i := 0; i < n; i++ {
					simrt.Yield("flt")
					simrt.Sleep(time.Duration(1+e.FL.Choose(8)) * 20 * time.Millisecond)
					api.CloseWatch(e.FL.Choose(4), e.FL.Choose(3) == 0)
				}
			})
		}
		booted = true
	})
	settle, settled := false, false
	err := s.Run(func() bool {
		if len(s.Panics) > 0 {
			return true
		}
		if !(booted && mutDone && syncDone && api.Drained()) {
			return false
		}
		if !settle {
			// give reflectors that are in back-off after a closed watch time to relist
			settle = true
			simrt.GoNamed("settle", func() { simrt.Sleep(90 * time.Second); settled = true })
			return false
		}
		return settled && api.Drained()
	})
	if err != nil {
		e.Out.Truncated = true
	}
	panicsToViolations(e, prop)
	e.Out.NonTrivial = s.Preempts > 0 || faults
	if bootErr != nil {
		e.Out.Infra = "AddMonitor: " + bootErr.Error()
	}

	// ---------------------------------------------------------------- oracle
	if err == nil && bootErr == nil && len(s.Panics) == 0 {
		ris := obs.ByMonitor("m1")
		// expected emissions per object, merged over informers in time order
		exp := map[string][]emission{}
		shownBy := map[string][]shownRec{}
		for _, r := range ris {
			es, _ := refEmissions(r.Shown, effEvents, proj)
			for _, em := range es {
				exp[em.Key] = append(exp[em.Key], em)
			}
			for _, sh := range r.Shown {
				shownBy[sh.Key] = append(shownBy[sh.Key], sh)
			}
		}
		got := map[string][]monDelivered{}
		for _, d := range delivered {
			got[d.Key] = append(got[d.Key], d)
		}
		same := func(d monDelivered, em emission) bool {
			if d.Type != em.Type {
				return false
			}
			if d.RV != 0 {
				return d.RV == em.RV
			}
			return true // objects dropped: identity by order only (projection checked by C08/C09)
		}
		describe := func(k string) string {
			var g []string
			for _, d := range got[k] {
				g = append(g, fmt.Sprintf("%s@%d", d.Type, d.RV))
			}
			return fmt.Sprintf("object %s: expected %s, delivered [%s]", k, emissionsString(exp[k]), strings.Join(g, ", "))
		}
		for k, ds := range got {
			// O2: delivered events are a subsequence of the demanded emissions, in order
			j := 0
			for _, d := range ds {
				for j < len(exp[k]) && !same(d, exp[k][j]) {
					j++
				}
				if j >= len(exp[k]) {
					clause, sig := "O2", "order-or-invention"
					if immediate {
						clause, sig = "T1", "unexpected-event:"+d.Type
					}
					e.Viol(prop, clause, sig, "event %s %s@%d is not a demanded change at this position; %s", d.Type, d.Key, d.RV, describe(k))
					break
				}
				j++
			}
		}
		if immediate {
			// exact: every demanded emission was delivered
			nonObj := false
			if filter != "" {
				for _, r := range ris {
					for _, sh := range r.Shown {
						if sh.Obj != nil && !strings.HasPrefix(proj.Proj(sh.Obj), "{") {
							nonObj = true
						}
					}
				}
			}
			for k, es := range exp {
				if len(got[k]) != len(es) {
					miss := ""
					if len(got[k]) < len(es) {
						miss = es[len(got[k])].Type
					}
					sig := "missing-event:" + miss
					if nonObj {
						// the jq program yields a value that is not a JSON object for some shown state
						sig = "jq:non-object-result"
					}
					e.Viol(prop, "T2", sig, "jqFilter %q: %s", filter, describe(k))
				}
			}
		}
		if !immediate && view != nil {
			// O4: no loss after the view. Per object: the cut is the latest shown state (before the view
			// ended) that the view is consistent with; every demanded emission after it must be delivered.
			r2during := false
			for i := 0; i+1 < len(reader2Seqs); i += 2 {
				// a second reader's Snapshot call overlapped the locked phase after the view started
				if reader2Seqs[i+1] > view.S0 && reader2Seqs[i] < unlockSeq {
					r2during = true
				}
			}
			for k, es := range exp {
				sh := shownBy[k]
				vs, inView := view.Objs[k]
				cut := int64(-1) // seq of the cut; emissions with Seq > cut are owed
				found := !inView
				if !inView {
					cut = 0
				}
				for _, x := range sh {
					if x.Seq > view.S1 {
						break
					}
					switch {
					case inView && x.Type != "Deleted" && ((vs.RV != 0 && vs.RV == x.RV) || (vs.RV == 0 && (filter == "" || vs.Proj == canonProj(proj, x)))):
						cut, found = x.Seq, true
					case !inView && x.Type == "Deleted":
						cut = x.Seq
					}
				}
				if !found {
					e.Viol("C02", "S2", "view-shows-unknown-state", "view shows %s@%d which the informer was never shown before the view", k, vs.RV)
					continue
				}
				var owed []emission
				for _, em := range es {
					if em.Seq > cut {
						owed = append(owed, em)
					}
				}
				// owed must be a suffix of what was delivered
				ds := got[k]
				if len(owed) > len(ds) {
					sig := "lost-event"
					if r2during {
						sig = "second-reader-during-sync"
					}
					e.Viol(prop, "O4", sig, "view %v: %d change(s) after the view are owed but only %d delivered; %s", viewState(vs, inView), len(owed), len(ds), describe(k))
					continue
				}
				tail := ds[len(ds)-len(owed):]
				for i := range owed {
					if !same(tail[i], owed[i]) {
						sig := "lost-event"
						if r2during {
							sig = "second-reader-during-sync"
						}
						e.Viol(prop, "O4", sig, "view %v: owed %s; %s", viewState(vs, inView), emissionsString(owed), describe(k))
						break
					}
				}
			}
			// O3: convergence (all three event types listed): view + delivered == final matching cluster state
			if len(effEvents) == 3 {
				model := map[string]uint64{}
				for k, v := range view.Objs {
					model[k] = v.RV
				}
				for _, d := range delivered {
					if d.Type == "Deleted" {
						delete(model, d.Key)
					} else {
						model[d.Key] = d.RV
					}
				}
				final := map[string]uint64{}
				for _, o := range api.Current(gvrPods, "", nil, nil) {
					if matchesNS(o.GetNamespace()) && matchesName(o.GetName()) {
						final[o.GetNamespace()+"/"+o.GetName()] = rvOf(o)
					}
				}
				for k, rv := range final {
					mrv, ok := model[k]
					if !ok {
						sig := "missing-object"
						if len(shownBy[k]) > 0 && shownBy[k][0].Type == "List" && firstListAfter(shownBy[k], armSeq) {
							sig = "object-present-when-namespace-informer-started"
						} else if r2during {
							sig = "second-reader-during-sync"
						}
						e.Viol(prop, "O3", sig, "final cluster has %s@%d but view+events has no such object; %s", k, rv, describe(k))
					} else if keepFull && filter == "" && mrv != rv {
						sig := "stale-object"
						if r2during {
							sig = "second-reader-during-sync"
						}
						e.Viol(prop, "O3", sig, "final cluster has %s@%d but view+events ends at @%d; %s", k, rv, mrv, describe(k))
					}
				}
				for k := range model {
					if _, ok := final[k]; !ok {
						sig := "ghost-object"
						onlyListed := len(shownBy[k]) > 0
						for _, sh := range shownBy[k] {
							if sh.Type != "List" {
								onlyListed = false
							}
						}
						if onlyListed {
							// listed by loadExistedObjects, gone before the informer's own list: never shown again
							sig = "two-list-gap"
						} else if r2during {
							sig = "second-reader-during-sync"
						}
						e.Viol(prop, "O3", sig, "view+events keeps %s which is not in the final cluster; %s", k, describe(k))
					}
				}
			}
		}
		// T3 (C08): suppressed changes still update what snapshots show - at the end the snapshot holds,
		// for every object, the last state its informer was shown
		if immediate && mgr != nil && mgr.GetMonitor("m1") != nil {
			want := map[string]shownRec{}
			for _, r := range ris {
				_, last := refEmissions(r.Shown, effEvents, proj)
				for k, v := range last {
					want[k] = v
				}
			}
			gotSnap := map[string]kemtypes.ObjectAndFilterResult{}
			for _, o := range mgr.GetMonitor("m1").Snapshot() {
				k, _ := keyOf(o)
				gotSnap[k] = o
			}
			for k, w := range want {
				g, ok := gotSnap[k]
				switch {
				case !ok:
					e.Viol(prop, "T3", "snapshot-misses-object", "snapshot lacks %s which the informer was last shown at @%d", k, w.RV)
				case keepFull && g.Object != nil && rvOf(g.Object) != w.RV:
					e.Viol(prop, "T3", "snapshot-stale-after-suppressed-change", "snapshot shows %s@%d, the informer was last shown @%d (a change outside the projection must still update the snapshot)", k, rvOf(g.Object), w.RV)
				}
			}
			for k := range gotSnap {
				if _, ok := want[k]; !ok {
					onlyListed := len(shownBy[k]) > 0
					for _, sh := range shownBy[k] {
						if sh.Type != "List" {
							onlyListed = false
						}
					}
					if !onlyListed { // the two-list gap is reported under C01/C02
						e.Viol(prop, "T3", "snapshot-keeps-deleted-object", "snapshot keeps %s which the informer was shown as deleted", k)
					}
				}
			}
		}
		// probes
		if view != nil {
			for _, r := range ris {
				for _, sh := range r.Shown {
					if sh.Type != "List" && sh.Seq > view.S0 && sh.Seq < unlockSeq {
						simrt.Count("probe:event-handled-while-locked-after-view")
						break
					}
				}
			}
			for i := 0; i+1 < len(reader2Seqs); i += 2 {
				if reader2Seqs[i+1] > view.S1 && reader2Seqs[i] < unlockSeq {
					simrt.Count("probe:second-reader-while-sync-running")
				}
			}
		}
		if len(ris) > 1 {
			simrt.Count("probe:multiple-informers")
		}
	}
	if e.Detail {
		var shown []string
		for _, r := range obs.Order {
			for _, sh := range r.Shown {
				shown = append(shown, fmt.Sprintf("ri%d(%s) seq %d %s %s@%d", r.Ord, r.NS, sh.Seq, sh.Type, sh.Key, sh.RV))
			}
		}
		var dl []string
		for _, d := range delivered {
			dl = append(dl, fmt.Sprintf("seq %d %s %s@%d", d.Seq, d.Type, d.Key, d.RV))
		}
		smp := map[string]any{"nsMode": nsMode, "jqFilter": filter, "events": events, "keepFullObjects": keepFull, "nameSelector": useNameSel,
			"writes": describeWrites(api, 60), "shown_to_informers": shown, "delivered": dl, "unlock_seq": unlockSeq, "second_reader_seqs": reader2Seqs}
		if view != nil {
			smp["view"] = map[string]any{"from_seq": view.S0, "to_seq": view.S1, "objects": fmt.Sprint(view.Objs)}
		}
		e.Out.Sample = smp
	}
	teardown(e, func() {
		cancel()
		if mgr != nil && mgr.GetMonitor("m1") != nil {
			mgr.GetMonitor("m1").Stop()
		}
		api.StopAll()
	})
}

func canonProj(p *projector, x shownRec) string {
	// the in-process FilterResult of the code under test is compared with the independent
	// evaluation only for object-valued filters (the C01 generator uses no others)
	return p.Proj(x.Obj)
}

func viewState(v monDelivered, in bool) string {
	if !in {
		return "(absent)"
	}
	return fmt.Sprintf("%s@%d", v.Key, v.RV)
}

func firstListAfter(sh []shownRec, seq int64) bool { return len(sh) > 0 && sh[0].Seq > seq }

func describeWrites(api *APIServer, max int) []string {
	var out []string
	for i, w := range api.Log {
		if i >= max {
			out = append(out, "…")
			break
		}
		out = append(out, fmt.Sprintf("seq %d rv=%d %s %s %s/%s", w.Seq, w.RV, w.Type, w.GVR.Resource, w.Obj.GetNamespace(), w.Obj.GetName()))
	}
	return out
}
