package harness

// Queue-level workload (C05, parts of C03/C17): client tasks issue the public
// TaskQueue operations while the real worker loop (Start) runs a scripted handler.
// Oracles: L1 linearizability against a list model (porcupine), L2 structural
// invariants at quiescence (no nil slot, Length == count, content == model),
// L3 handler invoked on the head (part of the model: Pick).

import (
	"context"
	"fmt"
	"sort"
	"strconv"
	"strings"
	"time"

	"github.com/anishathalye/porcupine"
	"github.com/deckhouse/deckhouse/pkg/log"

	metricstorage "github.com/flant/shell-operator/pkg/metric_storage"
	"github.com/flant/shell-operator/pkg/task"
	"github.com/flant/shell-operator/pkg/task/queue"
	simrt "verifsimrt"
)

func init() {
	register(&Workload{Name: "queue", Run: runQueueWL})
	plans["C05"] = []Part{
		{WL: "queue", Cfg: "mode=seq", Quick: 6000, Thor: 120000},
		{WL: "queue", Cfg: "mode=conc", Quick: 5000, Thor: 100000},
		{WL: "queue", Cfg: "mode=conc,dup=1", Quick: 2500, Thor: 50000},
	}
}

type qItem struct{ UID, ID string }

type qIn struct {
	Op    string
	ID    string   // target id
	New   *qItem   // inserted task
	Keep  []string // Filter: ids kept
	After []qItem  // Apply
	Head  []qItem
	Tail  []qItem
	Succ  bool
	Self  qItem // Apply/Pick: the handled task
}

type qOut struct{ Ret string }

func encList(l []qItem) string {
	parts := make([]string, len(l))
	for i, it := range l {
		parts[i] = it.UID + "=" + it.ID
	}
	return strings.Join(parts, ",")
}

func decList(s string) []qItem {
	if s == "" {
		return nil
	}
	var out []qItem
	for _, p := range strings.Split(s, ",") {
		i := strings.IndexByte(p, '=')
		out = append(out, qItem{p[:i], p[i+1:]})
	}
	return out
}

func uidsOf(l []qItem) string {
	parts := make([]string, len(l))
	for i, it := range l {
		parts[i] = it.UID
	}
	return strings.Join(parts, ",")
}

func firstIdx(l []qItem, id string) int {
	for i, it := range l {
		if it.ID == id {
			return i
		}
	}
	return -1
}

func insertAt(l []qItem, i int, it qItem) []qItem {
	out := make([]qItem, 0, len(l)+1)
	out = append(out, l[:i]...)
	out = append(out, it)
	out = append(out, l[i:]...)
	return out
}

func removeAt(l []qItem, i int) []qItem {
	out := make([]qItem, 0, len(l))
	out = append(out, l[:i]...)
	out = append(out, l[i+1:]...)
	return out
}

// listStep is the sequential reference: an ordinary list addressed by id (first match).
// It returns every list the operation may legitimately produce (more than one only for
// an insertion relative to an id that is not in the list: the ordinary list either
// ignores it or puts the task at the tail — both are "faithful"), or nil when the
// observed output is impossible in this state.
func listStep(l []qItem, in qIn, out qOut, byID bool) [][]qItem {
	one := func(x []qItem) [][]qItem { return [][]qItem{x} }
	same := one(l)
	switch in.Op {
	case "AddLast":
		return one(append(append([]qItem(nil), l...), *in.New))
	case "AddFirst":
		return one(insertAt(l, 0, *in.New))
	case "AddAfter":
		if i := firstIdx(l, in.ID); i >= 0 {
			return one(insertAt(l, i+1, *in.New))
		}
		return [][]qItem{l, append(append([]qItem(nil), l...), *in.New)}
	case "AddBefore":
		if i := firstIdx(l, in.ID); i >= 0 {
			return one(insertAt(l, i, *in.New))
		}
		return [][]qItem{l, append(append([]qItem(nil), l...), *in.New)}
	case "Remove":
		i := firstIdx(l, in.ID)
		if i < 0 {
			if out.Ret != "" {
				return nil
			}
			return same
		}
		if out.Ret != l[i].UID {
			return nil
		}
		return one(removeAt(l, i))
	case "RemoveFirst":
		if len(l) == 0 {
			if out.Ret != "" {
				return nil
			}
			return same
		}
		if out.Ret != l[0].UID {
			return nil
		}
		return one(removeAt(l, 0))
	case "RemoveLast":
		if len(l) == 0 {
			if out.Ret != "" {
				return nil
			}
			return same
		}
		if out.Ret != l[len(l)-1].UID {
			return nil
		}
		return one(removeAt(l, len(l)-1))
	case "GetFirst":
		want := ""
		if len(l) > 0 {
			want = l[0].UID
		}
		if out.Ret != want {
			return nil
		}
		return same
	case "GetLast":
		want := ""
		if len(l) > 0 {
			want = l[len(l)-1].UID
		}
		if out.Ret != want {
			return nil
		}
		return same
	case "Get":
		want := ""
		if i := firstIdx(l, in.ID); i >= 0 {
			want = l[i].UID
		}
		if out.Ret != want {
			return nil
		}
		return same
	case "Length":
		if out.Ret != strconv.Itoa(len(l)) {
			return nil
		}
		return same
	case "IsEmpty":
		if out.Ret != strconv.FormatBool(len(l) == 0) {
			return nil
		}
		return same
	case "Iterate":
		if out.Ret != uidsOf(l) {
			return nil
		}
		return same
	case "Filter":
		keep := map[string]bool{}
		for _, k := range in.Keep {
			keep[k] = true
		}
		var nl []qItem
		for _, it := range l {
			if keep[it.ID] {
				nl = append(nl, it)
			}
		}
		return one(nl)
	case "Pick": // the worker hands the head task to the handler
		if len(l) == 0 || l[0].UID != in.Self.UID {
			return nil
		}
		return same
	case "Apply": // result application after the handler returned (Success or Keep)
		cands := [][]qItem{append([]qItem(nil), l...)}
		// after tasks: right after the handled task, in order
		// byID: the variant in which the result is applied to the first task carrying the
		// handled task's id (only used to classify a violation, never to accept a history)
		isSelf := func(it qItem) bool {
			if byID {
				return it.ID == in.Self.ID
			}
			return it.UID == in.Self.UID
		}
		pos := -1
		for i, it := range l {
			if isSelf(it) {
				pos = i
				break
			}
		}
		if len(in.After) > 0 {
			if pos >= 0 {
				nl := append([]qItem(nil), l[:pos+1]...)
				nl = append(nl, in.After...)
				nl = append(nl, l[pos+1:]...)
				cands = [][]qItem{nl}
			} else {
				// the handled task was removed meanwhile: nothing to insert after
				cands = append(cands, append(append([]qItem(nil), l...), in.After...))
			}
		}
		var res [][]qItem
		for _, c := range cands {
			if in.Succ {
				for i, it := range c {
					if isSelf(it) {
						c = removeAt(c, i)
						break
					}
				}
			}
			nl := append([]qItem(nil), in.Head...)
			nl = append(nl, c...)
			nl = append(nl, in.Tail...)
			res = append(res, nl)
		}
		return res
	}
	return nil
}

func mkQModel(byID bool) porcupine.Model {
	return (&porcupine.NondeterministicModel{
		Init: func() []interface{} { return []interface{}{""} },
		Step: func(st, in, out interface{}) []interface{} {
			var res []interface{}
			for _, nl := range listStep(decList(st.(string)), in.(qIn), out.(qOut), byID) {
				res = append(res, encList(nl))
			}
			return res
		},
		Equal: func(a, b interface{}) bool { return a == b },
	}).ToModel()
}

var qModel = mkQModel(false)
var qModelByID = mkQModel(true)

type simTask struct {
	*task.BaseTask
	uid string
}

func runQueueWL(e *Env) {
	s := e.S
	wl := e.WL
	conc := e.CfgIs("mode", "conc")
	dup := e.CfgIs("dup", "1")
	s.Policy = simrt.RandomWalk
	s.SwitchDen = []int{2, 3, 6, 12}[wl.Choose(4)]
	s.Focus = []string{"pkg/task/queue/"}
	s.MaxYield = 150000
	s.MaxSim = 30 * time.Minute
	ctx, cancel := context.WithCancel(context.Background())
	var ops []porcupine.Operation
	nextUID := 0
	idAlphabet := 3 + wl.Choose(4)
	newTask := func() (*simTask, qItem) {
		nextUID++
		uid := "u" + strconv.Itoa(nextUID)
		id := "t" + strconv.Itoa(nextUID)
		if dup && wl.Bias(1, 3) {
			id = "t" + strconv.Itoa(1+wl.Choose(idAlphabet)) // may duplicate an existing id
		}
		bt := task.NewTask("T")
		bt.Id = id
		return &simTask{BaseTask: bt, uid: uid}, qItem{uid, id}
	}
	uidOf := func(t task.Task) string {
		if t == nil {
			return ""
		}
		if st, ok := t.(*simTask); ok {
			if st == nil {
				return "<nil>"
			}
			return st.uid
		}
		return "<foreign>"
	}
	var q *queue.TaskQueue
	record := func(c int, in qIn, out qOut, call int64) {
		ops = append(ops, porcupine.Operation{ClientId: c, Input: in, Call: call, Output: out, Return: e.Seq()})
		simrt.Logf("op c%d %s id=%s new=%v -> %s", c, in.Op, in.ID, in.New, out.Ret)
	}
	nclients := 1
	if conc {
		nclients = 2 + wl.Choose(2)
	}
	ndone := 0
	var seqModel [][]qItem = [][]qItem{nil} // mode=seq: set of possible lists
	seqBad := ""
	var opLog []string
	client := func(c int) {
		n := 3 + wl.Choose(6)
		if !conc {
			n = 4 + wl.Choose(12)
		}
		for k := 0; k < n; k++ {
			simrt.Yield("client")
			in := qIn{}
			var out qOut
			tgt := "t" + strconv.Itoa(1+wl.Choose(nextUID+2)) // present ids and up to two absent ones
			kind := wl.Choose(14)
			call := e.Seq()
			switch kind {
			case 0, 1:
				nt, it := newTask()
				in = qIn{Op: "AddLast", New: &it}
				q.AddLast(nt)
			case 2:
				nt, it := newTask()
				in = qIn{Op: "AddFirst", New: &it}
				q.AddFirst(nt)
			case 3:
				nt, it := newTask()
				in = qIn{Op: "AddAfter", ID: tgt, New: &it}
				q.AddAfter(tgt, nt)
			case 4:
				nt, it := newTask()
				in = qIn{Op: "AddBefore", ID: tgt, New: &it}
				q.AddBefore(tgt, nt)
			case 5:
				in = qIn{Op: "Remove", ID: tgt}
				out.Ret = uidOf(q.Remove(tgt))
			case 6:
				in = qIn{Op: "RemoveFirst"}
				out.Ret = uidOf(q.RemoveFirst())
			case 7:
				in = qIn{Op: "RemoveLast"}
				out.Ret = uidOf(q.RemoveLast())
			case 8:
				in = qIn{Op: "GetFirst"}
				out.Ret = uidOf(q.GetFirst())
			case 9:
				in = qIn{Op: "GetLast"}
				out.Ret = uidOf(q.GetLast())
			case 10:
				in = qIn{Op: "Get", ID: tgt}
				out.Ret = uidOf(q.Get(tgt))
			case 11:
				if wl.Choose(2) == 0 {
					in = qIn{Op: "Length"}
					out.Ret = strconv.Itoa(q.Length())
				} else {
					in = qIn{Op: "IsEmpty"}
					out.Ret = strconv.FormatBool(q.IsEmpty())
				}
			case 12:
				in = qIn{Op: "Iterate"}
				var ids []string
				q.Iterate(func(t task.Task) {
					if t == nil {
						ids = append(ids, "<nil>")
					} else {
						ids = append(ids, uidOf(t))
					}
				})
				out.Ret = strings.Join(ids, ",")
			case 13:
				var keep []string
				for i := 1; i <= nextUID; i++ {
					if wl.Choose(3) != 0 {
						keep = append(keep, "t"+strconv.Itoa(i))
					}
				}
				in = qIn{Op: "Filter", Keep: keep}
				km := map[string]bool{}
				for _, k := range keep {
					km[k] = true
				}
				q.Filter(func(t task.Task) bool { return t != nil && km[t.GetId()] })
			}
			record(c, in, out, call)
			if e.Detail {
				opLog = append(opLog, fmt.Sprintf("c%d %s(%s,%v)->%q", c, in.Op, in.ID, in.New, out.Ret))
			}
			if !conc && seqBad == "" {
				// exact, operation-by-operation comparison with the reference list
				var next [][]qItem
				seen := map[string]bool{}
				for _, l := range seqModel {
					for _, nl := range listStep(l, in, out, false) {
						if k := encList(nl); !seen[k] {
							seen[k] = true
							next = append(next, nl)
						}
					}
				}
				if len(next) == 0 {
					seqBad = fmt.Sprintf("op %d %s(id=%s) returned %q, impossible for list %q", k, in.Op, in.ID, out.Ret, encList(seqModel[0]))
					e.Viol("C05", "L1", in.Op, "%s", seqBad)
				} else {
					seqModel = next
					// and the content itself
					var got []string
					nils := 0
					q.Iterate(func(t task.Task) {
						if t == nil {
							nils++
							got = append(got, "<nil>")
						} else {
							got = append(got, uidOf(t))
						}
					})
					g := strings.Join(got, ",")
					ok := false
					var keepM [][]qItem
					for _, l := range seqModel {
						if uidsOf(l) == g {
							ok = true
							keepM = append(keepM, l)
						}
					}
					if nils > 0 {
						seqBad = "nil"
						e.Viol("C05", "L2", "nil-slot:"+in.Op, "after %s(id=%s): queue holds %d empty slot(s): [%s]", in.Op, in.ID, nils, g)
					} else if !ok {
						seqBad = "content"
						e.Viol("C05", "L2", "content:"+in.Op, "after %s(id=%s): queue [%s], reference list [%s]", in.Op, in.ID, g, uidsOf(seqModel[0]))
					} else {
						seqModel = keepM
						if q.Length() != len(got) {
							seqBad = "len"
							e.Viol("C05", "L2", "length:"+in.Op, "Length()=%d but %d tasks", q.Length(), len(got))
						}
					}
				}
			}
		}
		ndone++
	}
	// scripted handler
	handled := 0
	maxHandled := 4 + wl.Choose(6)
	workerClient := 100
	pickCall := int64(0)
	handler := func(t task.Task) queue.TaskResult {
		simrt.Yield("handler")
		self := qItem{uidOf(t), ""}
		if t != nil {
			self.ID = t.GetId()
		}
		ops = append(ops, porcupine.Operation{ClientId: workerClient, Input: qIn{Op: "Pick", Self: self}, Call: pickCall, Output: qOut{}, Return: e.Seq()})
		simrt.Logf("pick %s", self.UID)
		if e.Detail {
			opLog = append(opLog, "worker Pick->"+self.UID)
		}
		handled++
		if d := wl.Choose(3); d > 0 {
			simrt.Sleep(time.Duration(d) * 40 * time.Millisecond)
		}
		res := queue.TaskResult{Status: queue.Success}
		if handled < maxHandled {
			res.Status = []queue.TaskStatus{queue.Success, queue.Success, queue.Keep, queue.Fail, queue.Repeat}[wl.Choose(5)]
		}
		in := qIn{Op: "Apply", Self: self, Succ: res.Status == queue.Success}
		if res.Status == queue.Success || res.Status == queue.Keep {
			mk := func(n int) ([]task.Task, []qItem) {
				var ts []task.Task
				var its []qItem
				for i := 0; i < n && handled < maxHandled; i++ {
					nt, it := newTask()
					ts = append(ts, nt)
					its = append(its, it)
				}
				return ts, its
			}
			if wl.Bias(1, 3) {
				res.AfterTasks, in.After = mk(1 + wl.Choose(2))
			}
			if wl.Bias(1, 4) {
				res.HeadTasks, in.Head = mk(1 + wl.Choose(2))
			}
			if wl.Bias(1, 4) {
				res.TailTasks, in.Tail = mk(1 + wl.Choose(2))
			}
			if wl.Bias(1, 3) {
				// a handler that builds its new tasks in one slice and hands out sub-slices of it
				// (legal: the three results share a backing array and have spare capacity)
				all := make([]task.Task, 0, len(res.AfterTasks)+len(res.HeadTasks)+len(res.TailTasks)+3)
				all = append(all, res.AfterTasks...)
				all = append(all, res.HeadTasks...)
				all = append(all, res.TailTasks...)
				a, h := len(res.AfterTasks), len(res.HeadTasks)
				if a > 0 {
					res.AfterTasks = all[:a]
				}
				if h > 0 {
					res.HeadTasks = all[a : a+h]
				}
				if len(res.TailTasks) > 0 {
					res.TailTasks = all[a+h:]
				}
				simrt.Count("probe:handler-results-share-a-backing-array")
			}
		}
		applyCall := e.Seq()
		st := res.Status
		res.AfterHandle = func() {
			simrt.Yield("afterhandle")
			if st == queue.Success || st == queue.Keep {
				ops = append(ops, porcupine.Operation{ClientId: workerClient, Input: in, Call: applyCall, Output: qOut{}, Return: e.Seq()})
				simrt.Logf("apply %s %s", self.UID, st)
				if e.Detail {
					opLog = append(opLog, fmt.Sprintf("worker Apply(%s,%s,after=%v,head=%v,tail=%v)", self.UID, st, in.After, in.Head, in.Tail))
				}
			}
			pickCall = e.Seq()
		}
		return res
	}
	booted := false
	simrt.GoNamed("boot", func() {
		q = queue.NewTasksQueue()
		q.WithContext(ctx)
		q.WithName("q")
		q.WithMetricStorage(metricstorage.NewMetricStorage(ctx, "p", true, log.NewNop()))
		if conc {
			q.WithHandler(handler)
			pickCall = e.Seq()
			q.Start()
		}
		for c := 0; c < nclients; c++ {
			c := c
			simrt.GoNamed("client"+strconv.Itoa(c), func() { client(c) })
		}
		booted = true
	})
	s.Arm()
	err := s.Run(func() bool {
		if len(s.Panics) > 0 {
			return true
		}
		if !booted || ndone < nclients {
			return false
		}
		if conc && q.Length() > 0 && handled < maxHandled+3 && q.GetStatus() != "stop" {
			// (the worker stops for good when a client empties the queue between its IsEmpty and
			// GetFirst calls: waitForTask then returns nil like on cancellation. No listed property
			// covers that; the run simply ends. See DESIGN.md, observations.)
			return false
		}
		return true
	})
	if conc && q.GetStatus() == "stop" {
		simrt.Count("probe:worker-stopped-by-concurrent-remove")
	}
	if err != nil {
		e.Out.Truncated = true
	}
	panicsToViolations(e, "C05")
	if len(s.Panics) == 0 {
		// L2 at quiescence
		cnt, nils := 0, 0
		var got []string
		q.Iterate(func(t task.Task) {
			cnt++
			if t == nil {
				nils++
				got = append(got, "<nil>")
			} else {
				got = append(got, uidOf(t))
			}
		})
		if nils > 0 && seqBad == "" {
			e.Viol("C05", "L2", "nil-slot", "queue holds %d empty slot(s): [%s]", nils, strings.Join(got, ","))
		}
		if q.Length() != cnt {
			e.Viol("C05", "L2", "length", "Length()=%d but %d tasks", q.Length(), cnt)
		}
		if conc && nils == 0 {
			hist := ops
			if len(hist) <= 60 {
				// final content as one more read
				hist = append(append([]porcupine.Operation(nil), ops...), porcupine.Operation{ClientId: 200, Input: qIn{Op: "Iterate"}, Call: e.Seq(), Output: qOut{strings.Join(got, ",")}, Return: e.Seq()})
				switch porcupine.CheckOperationsTimeout(qModel, hist, 10*time.Second) {
				case porcupine.Illegal:
					sig := "not-linearizable"
					if dup && porcupine.CheckOperationsTimeout(qModelByID, hist, 10*time.Second) == porcupine.Ok {
						// explained completely by result application addressing the handled task by id
						sig = "dup-id-result-application"
					}
					e.Viol("C05", "L1", sig, "history of %d operations is not linearizable against the list model", len(hist))
				case porcupine.Unknown:
					simrt.Count("porcupine-inconclusive")
				}
			} else {
				simrt.Count("history-too-long")
			}
		}
	}
	e.Out.NonTrivial = len(ops) >= 3
	if e.Detail {
		sort.SliceStable(ops, func(i, j int) bool { return ops[i].Call < ops[j].Call })
		e.Out.Sample = map[string]any{"mode": e.Cfg["mode"], "clients": nclients, "operations": opLog}
	}
	teardown(e, func() { cancel() })
}
