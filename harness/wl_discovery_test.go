package harness

// C20: hook discovery. Generated directory trees on a real file system, real files, the real
// HookManager.Init with real os/exec (the exec seam passes through); every file logs its
// invocations. For every discovered hook in turn one variant where its --config run exits
// non-zero and one where it prints an invalid configuration (fault enumeration over which hook
// fails), plus the fault-free variant. No scheduler freedom is involved (single-threaded start-up).

import (
	"context"
	"fmt"
	"os"
	"path/filepath"
	"sort"
	"strings"

	"github.com/deckhouse/deckhouse/pkg/log"
	"github.com/flant/kube-client/fake"

	kem "github.com/flant/shell-operator/pkg/kube_events_manager"
	shop "github.com/flant/shell-operator/pkg/shell-operator"
	simrt "verifsimrt"
)

func init() {
	register(&Workload{Name: "discovery", Run: runDiscoveryWL})
	plans["C20"] = []Part{{WL: "discovery", Cfg: "prop=C20", Quick: 12, Thor: 300}}
}

type dFile struct {
	Rel  string
	Mode os.FileMode
}

func refDiscover(root string, files []dFile) []string {
	var out []string
	for _, f := range files {
		parts := strings.Split(f.Rel, "/")
		skip := false
		for _, d := range parts[:len(parts)-1] {
			if d == "lib" || strings.HasPrefix(d, ".") {
				skip = true
			}
		}
		name := parts[len(parts)-1]
		if strings.HasPrefix(name, ".") {
			skip = true
		}
		switch filepath.Ext(name) {
		case ".yaml", ".json", ".md", ".txt":
			skip = true
		}
		if f.Mode&0o111 == 0 {
			skip = true
		}
		if !skip {
			out = append(out, f.Rel)
		}
	}
	sort.Strings(out)
	return out
}

func runDiscoveryWL(e *Env) {
	s := e.S
	wl := e.WL
	s.MaxYield = 3000000
	s.Policy = simrt.RandomWalk
	s.SwitchDen = 50
	s.Exec = nil // real processes
	rootName := []string{"hooks", "hooks", "hooks", "hooks", "my-hooks", ".hooks", "lib"}[wl.Choose(7)]
	root := filepath.Join(e.Dir, rootName)
	tmp := filepath.Join(e.Dir, "tmp")
	os.MkdirAll(root, 0o755)
	os.MkdirAll(tmp, 0o755)
	logFile := filepath.Join(e.Dir, "invocations.log")
	dirs := []string{"", "", "a", "a/b", "lib", "a/lib", "a/lib/x", ".git", "a/.hidden", "libs", "lib2/c", "c.d", "z/lib.sh.d", "001"}
	names := []string{"hook.sh", "a.sh", "b", "run.py", "x.yaml", "x.json", "README.md", "notes.txt", ".hidden.sh", "lib", "lib.sh", "a.sh.bak", "z.yaml.sh", "c.JSON", "00-first", "hook"}
	modes := []os.FileMode{0o755, 0o755, 0o755, 0o644, 0o700, 0o100, 0o010, 0o001, 0o600}
	var files []dFile
	seen := map[string]bool{}
	n := 2 + wl.Choose(10)
	for i := 0; i < n; i++ {
		d := dirs[wl.Choose(len(dirs))]
		rel := names[wl.Choose(len(names))]
		if d != "" {
			rel = d + "/" + rel
		}
		// a path must not be both a file and a directory
		clash := seen[rel]
		for o := range seen {
			if strings.HasPrefix(o, rel+"/") || strings.HasPrefix(rel, o+"/") {
				clash = true
			}
		}
		for _, dd := range dirs {
			if dd == rel || strings.HasPrefix(dd, rel+"/") {
				clash = true
			}
		}
		if clash {
			continue
		}
		seen[rel] = true
		files = append(files, dFile{rel, modes[wl.Choose(len(modes))]})
	}
	want := refDiscover(root, files)
	cfgOK := `{"configVersion":"v1","onStartup":1}`
	badCfgs := []string{`{"configVersion":"v1","onStartup":"x","bogus":1}`, `{"configVersion":"v7"}`, `not json at all: [`, `{"configVersion":"v1","schedule":[{"crontab":"a b"}]}`}
	writeTree := func(failAt string, mode string) {
		os.RemoveAll(root)
		os.MkdirAll(root, 0o755)
		for _, d := range dirs {
			if d != "" && wl.Choose(1) == 0 {
				// only directories that hold files are created
			}
		}
		for _, f := range files {
			p := filepath.Join(root, f.Rel)
			os.MkdirAll(filepath.Dir(p), 0o755)
			cfg, code := cfgOK, 0
			if f.Rel == failAt {
				if mode == "exit" {
					code = 3
				} else {
					cfg = mode
				}
			}
			script := fmt.Sprintf("#!/bin/sh\necho \"%s $*\" >> %s\nif [ \"$1\" = \"--config\" ]; then\ncat <<'EOF'\n%s\nEOF\nexit %d\nfi\n", f.Rel, logFile, cfg, code)
			os.WriteFile(p, []byte(script), 0o755)
			os.Chmod(p, f.Mode)
		}
		os.Remove(logFile)
	}
	type variant struct {
		failAt, mode string
	}
	variants := []variant{{"", ""}}
	for _, h := range want {
		variants = append(variants, variant{h, "exit"}, variant{h, badCfgs[wl.Choose(len(badCfgs))]})
	}
	done := false
	var notes []string
	simrt.GoNamed("boot", func() {
		defer func() { done = true }()
		for _, v := range variants {
			writeTree(v.failAt, v.mode)
			ctx, cancel := context.WithCancel(context.Background())
			fc := fake.NewFakeCluster(fake.ClusterVersionV119)
			kem.DefaultFactoryStore = kem.NewFactoryStore()
			op, _, err := shop.VerifAssemble(ctx, log.NewNop(), fc.Client, root, tmp)
			cancel()
			invoked := map[string]int{}
			var order []string
			if data, rerr := os.ReadFile(logFile); rerr == nil {
				for _, ln := range strings.Split(strings.TrimSpace(string(data)), "\n") {
					if ln == "" {
						continue
					}
					f := strings.Fields(ln)
					if len(f) != 2 || f[1] != "--config" {
						e.Viol("C20", "D3", "unexpected-invocation", "file invoked as %q (only `--config` is expected at start)", ln)
						continue
					}
					invoked[f[0]]++
					order = append(order, f[0])
				}
			}
			desc := fmt.Sprintf("root %q files %v", rootName, files)
			rootSig := ""
			if rootName == ".hooks" || rootName == "lib" {
				rootSig = ":hooks-directory-itself-named-" + rootName
			}
			if v.failAt == "" {
				simrt.Count("probe:fault-free-variant")
				if err != nil {
					e.Viol("C20", "D1", "init-failed"+rootSig, "Init failed without any fault: %v; %s", err, desc)
					continue
				}
				got := op.HookManager.GetHookNames()
				if fmt.Sprint(got) != fmt.Sprint(want) {
					e.Viol("C20", "D1", "hook-set"+rootSig, "discovered %v, expected %v; %s", got, want, desc)
				}
				for _, h := range want {
					if invoked[h] != 1 {
						e.Viol("C20", "D2", "config-invocations"+rootSig, "%s was asked for --config %d times; %s", h, invoked[h], desc)
					}
				}
				for f, c := range invoked {
					found := false
					for _, h := range want {
						if h == f {
							found = true
						}
					}
					if !found {
						e.Viol("C20", "D2", "foreign-file-invoked", "%s is not a hook but was invoked %d times; %s", f, c, desc)
					}
				}
				if fmt.Sprint(order) != fmt.Sprint(want) && len(order) == len(want) {
					e.Viol("C20", "D4", "load-order", "hooks loaded in order %v, expected lexical order %v", order, want)
				}
			} else {
				simrt.Count("probe:config-fault-variant")
				if err == nil {
					e.Viol("C20", "D5", "bad-config-accepted", "initialization succeeded although --config of %s fails (%s); %s", v.failAt, v.mode, desc)
					continue
				}
				if !strings.Contains(err.Error(), v.failAt) {
					e.Viol("C20", "D5", "error-does-not-name-hook", "error %q does not name the hook %s", err.Error(), v.failAt)
				}
				for _, h := range want {
					if h > v.failAt && invoked[h] > 0 {
						e.Viol("C20", "D5", "loaded-after-failure", "%s was asked for --config although %s before it failed", h, v.failAt)
					}
					if h <= v.failAt && invoked[h] != 1 {
						e.Viol("C20", "D2", "config-invocations", "%s was asked for --config %d times (variant: %s fails)", h, invoked[h], v.failAt)
					}
				}
			}
			if e.Detail {
				notes = append(notes, fmt.Sprintf("variant fail=%q mode=%q -> err=%v invoked=%v", v.failAt, v.mode, err, order))
			}
		}
	})
	err := s.Run(func() bool { return len(s.Panics) > 0 || done })
	if err != nil {
		e.Out.Truncated = true
	}
	panicsToViolations(e, "C20")
	e.Out.NonTrivial = len(files) > 1
	if e.Detail {
		e.Out.Sample = map[string]any{"root": rootName, "files": fmt.Sprint(files), "expected_hooks": want, "variants": notes}
	}
	teardown(e, func() {})
}
