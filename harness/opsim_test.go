package harness

// opsim: the whole shell-operator inside one bubble (DESIGN.md section 4, "whole-operator
// workload"): SimAPIServer, an operator assembled from a generated hooks directory,
// hook processes replaced by a scripted stub behind the exec seam, op.Start() minus sockets.

import (
	"context"
	"encoding/json"
	"fmt"
	"os"
	"os/exec"
	"path/filepath"
	"sort"
	"strings"
	"time"

	"github.com/deckhouse/deckhouse/pkg/log"
	"github.com/flant/kube-client/fake"

	"github.com/flant/shell-operator/pkg/app"
	"github.com/flant/shell-operator/pkg/debug"
	task_metadata "github.com/flant/shell-operator/pkg/hook/task_metadata"
	kem "github.com/flant/shell-operator/pkg/kube_events_manager"
	shop "github.com/flant/shell-operator/pkg/shell-operator"
	"github.com/flant/shell-operator/pkg/task"
	"k8s.io/apimachinery/pkg/apis/meta/v1/unstructured"
	simrt "verifsimrt"
)

// ---------------------------------------------------------------- hook configuration

type KubeBinding struct {
	Name             string
	Kind             string
	NsNames          []string          // namespace.nameSelector.matchNames
	NsLabel          map[string]string // namespace.labelSelector.matchLabels
	NameSel          []string          // nameSelector.matchNames
	LabelSel         map[string]string // labelSelector.matchLabels
	JqFilter         string
	Events           []string // executeHookOnEvent; nil = default (all three)
	EventsSet        bool     // emit executeHookOnEvent even when empty
	NoSync           bool     // executeHookOnSynchronization: false
	DropObjects      bool     // keepFullObjectsInMemory: false
	Queue            string
	Group            string
	AllowFailure     bool
	IncludeSnapshots []string
}

type SchedBinding struct {
	Name             string
	Unnamed          bool // the configuration gives no name (the binding is then called "schedule"; Name holds that)
	Crontab          string
	Queue            string
	Group            string
	AllowFailure     bool
	IncludeSnapshots []string
}

type HookSpec struct {
	Path      string // relative to the hooks directory
	OnStartup *int
	Kube      []KubeBinding
	Sched     []SchedBinding
	Extra     map[string]any // further top-level keys (kubernetesValidating, settings, ...)
	RawConfig string         // used verbatim when set
}

func (b *KubeBinding) effQueue() string {
	if b.Queue == "" {
		return "main"
	}
	return b.Queue
}

func (h *HookSpec) ConfigJSON() string {
	if h.RawConfig != "" {
		return h.RawConfig
	}
	c := map[string]any{"configVersion": "v1"}
	if h.OnStartup != nil {
		c["onStartup"] = *h.OnStartup
	}
	var ks []any
	for _, b := range h.Kube {
		k := map[string]any{"name": b.Name, "apiVersion": "v1", "kind": b.Kind}
		ns := map[string]any{}
		if len(b.NsNames) > 0 {
			ns["nameSelector"] = map[string]any{"matchNames": b.NsNames}
		}
		if b.NsLabel != nil {
			ns["labelSelector"] = map[string]any{"matchLabels": b.NsLabel}
		}
		if len(ns) > 0 {
			k["namespace"] = ns
		}
		if len(b.NameSel) > 0 {
			k["nameSelector"] = map[string]any{"matchNames": b.NameSel}
		}
		if b.LabelSel != nil {
			k["labelSelector"] = map[string]any{"matchLabels": b.LabelSel}
		}
		if b.JqFilter != "" {
			k["jqFilter"] = b.JqFilter
		}
		if b.Events != nil || b.EventsSet {
			ev := b.Events
			if ev == nil {
				ev = []string{}
			}
			k["executeHookOnEvent"] = ev
		}
		if b.NoSync {
			k["executeHookOnSynchronization"] = false
		}
		if b.DropObjects {
			k["keepFullObjectsInMemory"] = false
		}
		if b.Queue != "" {
			k["queue"] = b.Queue
		}
		if b.Group != "" {
			k["group"] = b.Group
		}
		if b.AllowFailure {
			k["allowFailure"] = true
		}
		if len(b.IncludeSnapshots) > 0 {
			k["includeSnapshotsFrom"] = b.IncludeSnapshots
		}
		ks = append(ks, k)
	}
	if len(ks) > 0 {
		c["kubernetes"] = ks
	}
	var ss []any
	for _, b := range h.Sched {
		k := map[string]any{"name": b.Name, "crontab": b.Crontab}
		if b.Unnamed {
			delete(k, "name")
		}
		if b.Queue != "" {
			k["queue"] = b.Queue
		}
		if b.Group != "" {
			k["group"] = b.Group
		}
		if b.AllowFailure {
			k["allowFailure"] = true
		}
		if len(b.IncludeSnapshots) > 0 {
			k["includeSnapshotsFrom"] = b.IncludeSnapshots
		}
		ss = append(ss, k)
	}
	if len(ss) > 0 {
		c["schedule"] = ss
	}
	for k, v := range h.Extra {
		c[k] = v
	}
	b, _ := json.Marshal(c)
	return string(b)
}

// ---------------------------------------------------------------- execution log

type ObjRef struct {
	NS, Name, Kind string
	RV             uint64
	HasObject      bool
	HasFilter      bool   // key filterResult present
	Filter         string // canonical JSON of filterResult
	Raw            map[string]any
}

func (o ObjRef) Key() string { return o.NS + "/" + o.Name }

type Ctx struct {
	Binding    string
	Type       string
	WatchEvent string
	Group      string // not in the JSON; recovered from configuration by oracles when needed
	Obj        *ObjRef
	Objects    []ObjRef
	HasObjects bool
	Snapshots  map[string][]ObjRef
	HasSnaps   bool
	Raw        map[string]any
}

type Exec struct {
	N        int
	Hook     string
	StartSeq int64
	EndSeq   int64
	Start    time.Duration
	End      time.Duration
	Ctxs     []Ctx
	RawCtx   []byte
	Env      map[string]string
	Dir      string
	// scripted by the workload's Behave callback
	Dur        time.Duration
	Fail       bool
	Metrics    string
	Patch      string
	Signal     string // real-process mode: the hook process ends by sending itself this signal (KILL, TERM, SEGV) after writing its outputs
	PatchObj   string // name of the object the patch writes (opsim runs with patches), for fault attribution
	Admission  string
	Conversion string
	ExitCode   int // real mode: exit status of the process
	Report     map[string]string
	ReportCtx  []byte
	// observations
	Unattributed bool   // oracle-side copy used as a barrier in per-queue sequences (see execsByQueue)
	QueueSeen    string // queue whose task carries exactly these contexts while the hook runs ("" = not identified)
	HeadIdx      int    // position of that task in its queue (0 = head)
	// simulated time at which the task right behind this execution's task was queued, if that is a
	// HookRun task of the same hook (0 = none)
	NextSameHookQueuedAt time.Duration
	ParseErr             string
	InputsSeen           map[string]int // size of each of the five files at start
}

func canonJSON(v any) string {
	b, _ := json.Marshal(v)
	return string(b)
}

func parseObjRef(m map[string]any) ObjRef {
	r := ObjRef{Raw: m}
	if o, ok := m["object"].(map[string]any); ok && o != nil {
		r.HasObject = true
		md, _ := o["metadata"].(map[string]any)
		r.Name = fmt.Sprint(md["name"])
		if ns, ok := md["namespace"]; ok {
			r.NS = fmt.Sprint(ns)
		}
		r.Kind = fmt.Sprint(o["kind"])
		fmt.Sscan(fmt.Sprint(md["resourceVersion"]), &r.RV)
	}
	if fr, ok := m["filterResult"]; ok {
		r.HasFilter = true
		r.Filter = canonJSON(fr)
	}
	return r
}

func parseObjList(v any) []ObjRef {
	l, _ := v.([]any)
	out := make([]ObjRef, 0, len(l))
	for _, it := range l {
		if m, ok := it.(map[string]any); ok {
			out = append(out, parseObjRef(m))
		}
	}
	return out
}

func parseCtxs(data []byte) ([]Ctx, error) {
	var raw []map[string]any
	if err := json.Unmarshal(data, &raw); err != nil {
		return nil, err
	}
	var out []Ctx
	for _, c := range raw {
		x := Ctx{Raw: c}
		x.Binding, _ = c["binding"].(string)
		x.Type, _ = c["type"].(string)
		x.WatchEvent, _ = c["watchEvent"].(string)
		if _, ok := c["object"]; ok || c["filterResult"] != nil {
			r := parseObjRef(c)
			x.Obj = &r
		} else if _, ok := c["filterResult"]; ok {
			r := parseObjRef(c)
			x.Obj = &r
		}
		if objs, ok := c["objects"]; ok {
			x.HasObjects = true
			x.Objects = parseObjList(objs)
		}
		if sn, ok := c["snapshots"].(map[string]any); ok {
			x.HasSnaps = true
			x.Snapshots = map[string][]ObjRef{}
			for k, v := range sn {
				x.Snapshots[k] = parseObjList(v)
			}
		}
		out = append(out, x)
	}
	return out, nil
}

func (c Ctx) String() string {
	var b strings.Builder
	fmt.Fprintf(&b, "%s/%s", c.Binding, c.Type)
	if c.WatchEvent != "" {
		fmt.Fprintf(&b, "/%s", c.WatchEvent)
	}
	if c.Obj != nil {
		fmt.Fprintf(&b, " %s@%d", c.Obj.Key(), c.Obj.RV)
	}
	if c.HasObjects {
		b.WriteString(" objects=[")
		for i, o := range c.Objects {
			if i > 0 {
				b.WriteString(" ")
			}
			fmt.Fprintf(&b, "%s@%d", o.Key(), o.RV)
		}
		b.WriteString("]")
	}
	if c.HasSnaps {
		var ks []string
		for k := range c.Snapshots {
			ks = append(ks, k)
		}
		sort.Strings(ks)
		for _, k := range ks {
			fmt.Fprintf(&b, " snap[%s]=[", k)
			for i, o := range c.Snapshots[k] {
				if i > 0 {
					b.WriteString(" ")
				}
				fmt.Fprintf(&b, "%s@%d", o.Key(), o.RV)
			}
			b.WriteString("]")
		}
	}
	return b.String()
}

func (x *Exec) String() string {
	var parts []string
	for _, c := range x.Ctxs {
		parts = append(parts, c.String())
	}
	st := "ok"
	if x.Fail {
		st = "FAIL"
	}
	return fmt.Sprintf("#%d %s seq %d..%d t=%v..%v %s {%s}", x.N, x.Hook, x.StartSeq, x.EndSeq, x.Start, x.End, st, strings.Join(parts, "; "))
}

// ---------------------------------------------------------------- the simulated operator

type OpSim struct {
	e        *Env
	fc       *fake.Cluster
	API      *APIServer
	Op       *shop.ShellOperator
	Dbg      *debug.Server
	ctx      context.Context
	cancel   context.CancelFunc
	HooksDir string
	TmpDir   string
	Hooks    map[string]*HookSpec // by relative path
	Execs    []*Exec
	Configs  map[string]int // --config invocations per hook
	Behave   func(x *Exec)  // scripted hook behaviour; called at execution start
	BootErr  error
	Booted   bool
	inFlight int
	Arrivals []Arrival
	Real     bool   // hook files are real bash scripts, executions run real processes (C12)
	CtlDir   string // control directory of the real scripts
}

const realHookScript = `#!/bin/bash
key=$(echo "$0" | sed "s#^$VERIF_HOOKS_DIR/##; s#/#__#g")
ctl="$VERIF_CTL_DIR"
if [ "$1" = "--config" ]; then
  cat "$ctl/$key.config"
  exit 0
fi
n=$(cat "$ctl/$key.n")
rep="$ctl/$key.report.$n"
{
  echo "pwd=$(pwd)"
  echo "argc=$#"
  for v in BINDING_CONTEXT_PATH METRICS_PATH KUBERNETES_PATCH_PATH VALIDATING_RESPONSE_PATH ADMISSION_RESPONSE_PATH CONVERSION_RESPONSE_PATH; do
    p="${!v}"
    if [ -f "$p" ]; then sz=$(stat -c %s "$p"); else sz=-1; fi
    echo "env.$v=$p"
    echo "size.$v=$sz"
  done
  echo "tmp=$(ls -1 "$(dirname "$BINDING_CONTEXT_PATH")" | tr '\n' ' ')"
} > "$rep"
cp "$BINDING_CONTEXT_PATH" "$rep.ctx"
[ -f "$ctl/$key.out.metrics" ] && cat "$ctl/$key.out.metrics" > "$METRICS_PATH"
[ -f "$ctl/$key.out.patch" ] && cat "$ctl/$key.out.patch" > "$KUBERNETES_PATCH_PATH"
[ -f "$ctl/$key.out.admission" ] && cat "$ctl/$key.out.admission" > "$VALIDATING_RESPONSE_PATH"
[ -f "$ctl/$key.out.conversion" ] && cat "$ctl/$key.out.conversion" > "$CONVERSION_RESPONSE_PATH"
ex=$(cat "$ctl/$key.exit")
case "$ex" in
  KILL|TERM|SEGV) kill -$ex $$; sleep 2 ;;
esac
exit $ex
`

func hookKey(rel string) string { return strings.ReplaceAll(rel, "/", "__") }

// Arrival: a task created by the events handler for a kube event or a schedule tick
// (observed by wrapping the handler callbacks; the tasks are appended right afterwards).
type Arrival struct {
	Kind        string // "kube" or "schedule:<crontab>"
	Batch       int    // ordinal of the event
	Seq         int64
	Queue, Hook string
	Binding     string
	Group       string
	Allow       bool
	Snapshots   []string
	Ctx         string // identity of the (single) binding context
	At          time.Duration
	Waited      time.Duration
	IdleHead    bool
}

func NewOpSim(e *Env, hooks []*HookSpec) *OpSim {
	o := &OpSim{e: e, Hooks: map[string]*HookSpec{}, Configs: map[string]int{}}
	o.HooksDir = filepath.Join(e.Dir, "hooks")
	o.TmpDir = filepath.Join(e.Dir, "tmp")
	os.MkdirAll(o.HooksDir, 0o755)
	os.MkdirAll(o.TmpDir, 0o755)
	o.CtlDir = filepath.Join(e.Dir, "ctl")
	os.MkdirAll(o.CtlDir, 0o755)
	for _, h := range hooks {
		o.Hooks[h.Path] = h
		p := filepath.Join(o.HooksDir, h.Path)
		os.MkdirAll(filepath.Dir(p), 0o755)
		os.WriteFile(p, []byte("#!/bin/sh\n"), 0o755)
	}
	ca := filepath.Join(e.Dir, "ca.crt")
	os.WriteFile(ca, []byte("dummy"), 0o644)
	app.ValidatingWebhookSettings.CAPath = ca
	app.ConversionWebhookSettings.CAPath = ca
	o.ctx, o.cancel = context.WithCancel(context.Background())
	o.fc = fake.NewFakeCluster(fake.ClusterVersionV119)
	o.API = NewAPIServer(e, o.fc)
	e.S.Exec = o.stub
	return o
}

// UseRealHooks replaces the hook files by real bash scripts that record what they see.
func (o *OpSim) UseRealHooks() {
	o.Real = true
	os.Setenv("VERIF_CTL_DIR", o.CtlDir)
	os.Setenv("VERIF_HOOKS_DIR", o.HooksDir)
	for _, h := range o.Hooks {
		os.WriteFile(filepath.Join(o.HooksDir, h.Path), []byte(realHookScript), 0o755)
		os.WriteFile(filepath.Join(o.CtlDir, hookKey(h.Path)+".config"), []byte(h.ConfigJSON()), 0o644)
	}
}

func (o *OpSim) stub(cmd *exec.Cmd, op string) ([]byte, error) {
	rel, _ := filepath.Rel(o.HooksDir, cmd.Path)
	if len(cmd.Args) > 1 && cmd.Args[1] == "--config" {
		o.Configs[rel]++
		if o.Real {
			return cmd.Output()
		}
		h := o.Hooks[rel]
		if h == nil {
			return nil, fmt.Errorf("exit status 127")
		}
		return []byte(h.ConfigJSON()), nil
	}
	x := &Exec{N: len(o.Execs) + 1, Hook: rel, StartSeq: o.e.Seq(), Start: o.e.Since(), Env: map[string]string{}, Dir: cmd.Dir, InputsSeen: map[string]int{}}
	for _, kv := range cmd.Env {
		if i := strings.IndexByte(kv, '='); i > 0 {
			switch k := kv[:i]; k {
			case "BINDING_CONTEXT_PATH", "METRICS_PATH", "KUBERNETES_PATCH_PATH", "VALIDATING_RESPONSE_PATH", "ADMISSION_RESPONSE_PATH", "CONVERSION_RESPONSE_PATH":
				x.Env[k] = kv[i+1:]
			}
		}
	}
	for k, p := range x.Env {
		if st, err := os.Stat(p); err == nil {
			x.InputsSeen[k] = int(st.Size())
		} else {
			x.InputsSeen[k] = -1
		}
	}
	data, err := os.ReadFile(x.Env["BINDING_CONTEXT_PATH"])
	if err != nil {
		x.ParseErr = err.Error()
	} else {
		x.RawCtx = data
		if x.Ctxs, err = parseCtxs(data); err != nil {
			x.ParseErr = err.Error()
		}
	}
	o.Execs = append(o.Execs, x)
	o.inFlight++
	o.locateTask(x)
	if o.Behave != nil {
		o.Behave(x)
	}
	simrt.Logf("exec start %s", x.String())
	if x.Dur > 0 {
		simrt.Sleep(x.Dur)
	}
	write := func(env, content string) {
		if content != "" {
			os.WriteFile(x.Env[env], []byte(content), 0o644)
		}
	}
	var realErr error
	if o.Real {
		// phase two: the actual process, run to completion inside this scheduler step
		key := hookKey(rel)
		ctl := func(suffix, content string) {
			p := filepath.Join(o.CtlDir, key+suffix)
			if content == "" {
				os.Remove(p)
			} else {
				os.WriteFile(p, []byte(content), 0o644)
			}
		}
		ctl(".n", fmt.Sprint(x.N))
		ctl(".out.metrics", x.Metrics)
		ctl(".out.patch", x.Patch)
		ctl(".out.admission", x.Admission)
		ctl(".out.conversion", x.Conversion)
		if x.Signal != "" {
			ctl(".exit", x.Signal)
		} else {
			ctl(".exit", fmt.Sprint(x.ExitCode))
		}
		realErr = cmd.Run()
		x.Report = map[string]string{}
		if data, err := os.ReadFile(filepath.Join(o.CtlDir, fmt.Sprintf("%s.report.%d", key, x.N))); err == nil {
			for _, ln := range strings.Split(string(data), "\n") {
				if i := strings.IndexByte(ln, '='); i > 0 {
					x.Report[ln[:i]] = ln[i+1:]
				}
			}
		}
		x.ReportCtx, _ = os.ReadFile(filepath.Join(o.CtlDir, fmt.Sprintf("%s.report.%d.ctx", key, x.N)))
	} else {
		write("METRICS_PATH", x.Metrics)
		write("KUBERNETES_PATCH_PATH", x.Patch)
		write("VALIDATING_RESPONSE_PATH", x.Admission)
		write("CONVERSION_RESPONSE_PATH", x.Conversion)
	}
	x.EndSeq = o.e.Seq()
	x.End = o.e.Since()
	o.inFlight--
	simrt.Logf("exec end #%d fail=%v", x.N, x.Fail)
	if o.Real {
		return nil, realErr
	}
	if x.Fail {
		return nil, fmt.Errorf("exit status 1")
	}
	return nil, nil
}

// locateTask finds the queued task that carries exactly the contexts of this execution.
func (o *OpSim) locateTask(x *Exec) {
	if o.Op == nil || len(x.Ctxs) == 0 {
		return
	}
	type cand struct {
		q   string
		idx int
	}
	var cands []cand
	// one GetByName per known queue name (a single read lock each; TaskQueueSet.Iterate takes the
	// set's read lock recursively and must not be added to the system by the harness)
	for _, qn := range o.queueNames() {
		q := o.Op.TaskQueues.GetByName(qn)
		if q == nil {
			continue
		}
		idx := 0
		q.Iterate(func(t task.Task) {
			defer func() { idx++ }()
			if t == nil {
				return
			}
			hm, ok := t.GetMetadata().(task_metadata.HookMetadata)
			if !ok || hm.HookName != x.Hook || len(hm.BindingContext) != len(x.Ctxs) {
				return
			}
			for i, bc := range hm.BindingContext {
				if bc.Binding != x.Ctxs[i].Binding {
					return
				}
			}
			cands = append(cands, cand{q.Name, idx})
		})
	}
	if len(cands) == 1 {
		x.QueueSeen, x.HeadIdx = cands[0].q, cands[0].idx
		// what stands right behind this execution's task (for the C07 oracle M7)
		if q := o.Op.TaskQueues.GetByName(x.QueueSeen); q != nil {
			idx := 0
			q.Iterate(func(t task.Task) {
				defer func() { idx++ }()
				if idx != x.HeadIdx+1 || t == nil || t.GetType() != task_metadata.HookRun {
					return
				}
				if hm, ok := t.GetMetadata().(task_metadata.HookMetadata); ok && hm.HookName == x.Hook {
					x.NextSameHookQueuedAt = t.GetQueuedAt().Sub(o.e.T0)
					if x.NextSameHookQueuedAt <= 0 {
						x.NextSameHookQueuedAt = 1
					}
				}
			})
		}
	}
}

func (o *OpSim) queueNames() []string {
	set := map[string]bool{"main": true}
	for _, h := range o.Hooks {
		for _, b := range h.Kube {
			set[b.effQueue()] = true
		}
		for _, b := range h.Sched {
			if b.Queue != "" {
				set[b.Queue] = true
			}
		}
	}
	return sortedKeys(set)
}

func toUnstructured(m map[string]any) *unstructured.Unstructured {
	return &unstructured.Unstructured{Object: m}
}

// Boot assembles and starts the operator; call from a task.
func (o *OpSim) Boot(start bool) {
	kem.DefaultFactoryStore = kem.NewFactoryStore()
	op, dbg, err := shop.VerifAssemble(o.ctx, log.NewNop(), o.fc.Client, o.HooksDir, o.TmpDir)
	if err != nil {
		o.BootErr = err
		o.Booted = true
		return
	}
	o.Op, o.Dbg = op, dbg
	batch := 0
	shop.VerifWrapHandlers(op, func(kind string, tasks []task.Task) {
		batch++
		for _, t := range tasks {
			hm, ok := t.GetMetadata().(task_metadata.HookMetadata)
			if !ok {
				continue
			}
			a := Arrival{Kind: kind, Batch: batch, Seq: o.e.Seq(), Queue: t.GetQueueName(), Hook: hm.HookName, Binding: hm.Binding, Group: hm.Group, Allow: hm.AllowFailure, At: o.e.Since()}
			if len(hm.BindingContext) > 0 {
				bc := hm.BindingContext[0]
				a.Snapshots = bc.Metadata.IncludeSnapshots
				a.Ctx = bc.Binding + "/" + string(bc.Type) + "/" + string(bc.WatchEvent)
				if len(bc.Objects) > 0 && bc.Objects[0].Object != nil {
					a.Ctx += fmt.Sprintf("/%s/%s@%s", bc.Objects[0].Object.GetNamespace(), bc.Objects[0].Object.GetName(), bc.Objects[0].Object.GetResourceVersion())
				}
			}
			o.Arrivals = append(o.Arrivals, a)
		}
		if len(tasks) == 0 {
			o.Arrivals = append(o.Arrivals, Arrival{Kind: kind, Batch: batch, Seq: o.e.Seq(), At: o.e.Since(), Queue: "-"})
		}
	})
	if start {
		op.Start()
	}
	o.Booted = true
}

// QueuesEmpty: every queue is empty and no hook execution is in flight (scheduler context).
func (o *OpSim) QueuesEmpty() bool {
	if o.Op == nil {
		return false
	}
	if o.inFlight > 0 {
		return false
	}
	for _, qn := range o.queueNames() {
		if q := o.Op.TaskQueues.GetByName(qn); q != nil && q.Length() > 0 {
			return false
		}
	}
	return true
}

// Quiet: watches drained, queues empty, nothing in flight.
func (o *OpSim) Quiet() bool { return o.API.Drained() && o.QueuesEmpty() }

func (o *OpSim) Teardown() {
	teardown(o.e, func() {
		if o.Op != nil {
			o.Op.Shutdown()
			o.Op.Stop()
		}
		o.cancel()
		o.API.StopAll()
	})
}

func (o *OpSim) DescribeExecs(max int) []string {
	var out []string
	for i, x := range o.Execs {
		if i >= max {
			out = append(out, "…")
			break
		}
		out = append(out, x.String())
	}
	return out
}

func (o *OpSim) DescribeWrites(max int) []string {
	var out []string
	for i, w := range o.API.Log {
		if i >= max {
			out = append(out, "…")
			break
		}
		out = append(out, fmt.Sprintf("seq %d rv=%d %s %s %s/%s by %s", w.Seq, w.RV, w.Type, w.GVR.Resource, w.Obj.GetNamespace(), w.Obj.GetName(), w.By))
	}
	return out
}
