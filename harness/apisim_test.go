package harness

// SimAPIServer: the simulated Kubernetes API server. It sits behind the seam the
// fake clientsets already have (PrependReactor / PrependWatchReactor); above that
// seam everything is the real thing (client-go reflectors, DeltaFIFO, shared
// informers, FactoryStore, ObjectPatcher). See DESIGN.md 3.4.
//
// Reactors run with the fake clientset's lock held: they are short, synchronous
// and never park. All scheduling freedom sits in the per-watch pump tasks.

import (
	"context"
	"encoding/json"
	"fmt"
	"k8s.io/client-go/dynamic"
	"reflect"
	"sort"
	"strconv"
	"strings"
	"sync"
	"time"
	"unsafe"

	jsonpatch "github.com/evanphx/json-patch"
	corev1 "k8s.io/api/core/v1"
	apierrors "k8s.io/apimachinery/pkg/api/errors"
	metav1 "k8s.io/apimachinery/pkg/apis/meta/v1"
	"k8s.io/apimachinery/pkg/apis/meta/v1/unstructured"
	"k8s.io/apimachinery/pkg/fields"
	"k8s.io/apimachinery/pkg/labels"
	"k8s.io/apimachinery/pkg/runtime"
	"k8s.io/apimachinery/pkg/runtime/schema"
	"k8s.io/apimachinery/pkg/types"
	"k8s.io/apimachinery/pkg/watch"
	fakedynamic "k8s.io/client-go/dynamic/fake"
	k8sfake "k8s.io/client-go/kubernetes/fake"
	ktesting "k8s.io/client-go/testing"

	"github.com/flant/kube-client/fake"
	simrt "verifsimrt"
)

var (
	gvrPods = schema.GroupVersionResource{Version: "v1", Resource: "pods"}
	gvrCMs  = schema.GroupVersionResource{Version: "v1", Resource: "configmaps"}
	gvrNS   = schema.GroupVersionResource{Version: "v1", Resource: "namespaces"}
)

func gvrOfKind(kind string) schema.GroupVersionResource {
	switch kind {
	case "Pod":
		return gvrPods
	case "ConfigMap":
		return gvrCMs
	case "Namespace":
		return gvrNS
	case "Secret":
		return schema.GroupVersionResource{Version: "v1", Resource: "secrets"}
	}
	return schema.GroupVersionResource{Version: "v1", Resource: strings.ToLower(kind) + "s"}
}

type logEntry struct {
	Seq  int64         // simulator event sequence number of the acknowledgement
	At   time.Duration // simulated time of the acknowledgement
	RV   uint64
	Type watch.EventType // Added / Modified / Deleted at cluster level
	GVR  schema.GroupVersionResource
	Obj  *unstructured.Unstructured // state after the write (for Deleted: the last state)
	By   string                     // who wrote: "mutator", "patcher", ...
}

func (e logEntry) Key() string { return okey(e.GVR, e.Obj.GetNamespace(), e.Obj.GetName()) }

type shownEvent struct {
	Seq  int64
	Type watch.EventType
	Key  string
	RV   uint64
}

type simWatch struct {
	key     string
	gvr     schema.GroupVersionResource
	ns      string
	lsel    labels.Selector
	fsel    fields.Selector
	matched map[string]bool
	queue   []watch.Event
	result  chan watch.Event
	stopped bool // stopped by the client
	closed  bool // closed by the server (fault)
	typed   bool
	Sent    int
	Shown   []shownEvent
}

func (w *simWatch) Stop()                          { w.stopped = true }
func (w *simWatch) ResultChan() <-chan watch.Event { return w.result }

type listRecord struct {
	Seq  int64
	GVR  schema.GroupVersionResource
	NS   string
	Sel  string
	RV   uint64
	Keys []string
	RVs  []uint64
}

type APIServer struct {
	e       *Env
	mu      sync.Mutex
	rv      uint64
	Log     []logEntry
	cur     map[string]*unstructured.Unstructured // gvr|ns|name -> obj
	watches []*simWatch
	nwatch  map[string]int
	Lists   []listRecord
	// fault knobs (consumed by reactors)
	FailList        map[string]int // resource -> remaining list failures
	FailWrite       map[string]int // verb -> remaining write failures
	FailWriteName   map[string]int // object name -> remaining failures of writes to an object of that name
	FaultedNames    map[string]int // object name -> write failures that fired
	SlowList        map[string]int // resource -> remaining lists that take SlowListDur of simulated time to answer
	SlowListDur     time.Duration
	ConflictUpdates int             // remaining updates answered 409 Conflict (a concurrent writer got in between Get and Update)
	SlowDeleteNames map[string]bool // ns/name of objects whose next delete leaves them terminating for a while (finalizers, dependents); the fake client does not pass DeleteOptions on, so the workload names the objects it deletes in the foreground
	By              string          // attribution of writes arriving through the reactors
	Obs             *Observer
	compactRV       uint64 // watches from an rv below this get 410 Gone
}

func okey(gvr schema.GroupVersionResource, ns, name string) string {
	return gvr.Resource + "|" + ns + "|" + name
}

func NewAPIServer(e *Env, fc *fake.Cluster) *APIServer {
	a := &APIServer{e: e, cur: map[string]*unstructured.Unstructured{}, nwatch: map[string]int{}, FailList: map[string]int{}, FailWrite: map[string]int{}, FailWriteName: map[string]int{}, SlowList: map[string]int{}, SlowListDur: 30 * time.Second, SlowDeleteNames: map[string]bool{}, FaultedNames: map[string]int{}, By: "patcher"}
	dyn := fc.Client.Dynamic().(*fakedynamic.FakeDynamicClient)
	dyn.PrependReactor("*", "*", a.react)
	dyn.PrependWatchReactor("*", a.reactWatch)
	typed := fc.Client.Interface.(*k8sfake.Clientset)
	typed.PrependReactor("*", "namespaces", a.reactTypedNs)
	typed.PrependWatchReactor("namespaces", a.reactWatchTypedNs)
	return a
}

func (a *APIServer) RV() uint64 { return a.rv }

func (a *APIServer) record(t watch.EventType, gvr schema.GroupVersionResource, obj *unstructured.Unstructured, by string) *unstructured.Unstructured {
	a.rv++
	o := obj.DeepCopy()
	o.SetResourceVersion(strconv.FormatUint(a.rv, 10))
	ent := logEntry{Seq: a.e.Seq(), At: a.e.Since(), RV: a.rv, Type: t, GVR: gvr, Obj: o, By: by}
	a.Log = append(a.Log, ent)
	k := okey(gvr, o.GetNamespace(), o.GetName())
	if t == watch.Deleted {
		delete(a.cur, k)
	} else {
		a.cur[k] = o
	}
	for _, w := range a.watches {
		a.feed(w, ent)
	}
	simrt.Logf("api write rv=%d %s %s %s/%s by %s", a.rv, t, gvr.Resource, o.GetNamespace(), o.GetName(), by)
	return o
}

func (w *simWatch) matches(o *unstructured.Unstructured) bool {
	if w.ns != "" && o.GetNamespace() != w.ns {
		return false
	}
	if w.lsel != nil && !w.lsel.Matches(labels.Set(o.GetLabels())) {
		return false
	}
	if w.fsel != nil && !w.fsel.Matches(fields.Set{"metadata.name": o.GetName(), "metadata.namespace": o.GetNamespace()}) {
		return false
	}
	return true
}

func (a *APIServer) feed(w *simWatch, e logEntry) {
	if w.stopped || w.closed || e.GVR != w.gvr {
		return
	}
	k := e.Key()
	old := w.matched[k]
	now := e.Type != watch.Deleted && w.matches(e.Obj)
	var t watch.EventType
	switch {
	case !old && now:
		t = watch.Added
	case old && now:
		t = watch.Modified
	case old && !now:
		t = watch.Deleted
	default:
		return
	}
	if now {
		w.matched[k] = true
	} else {
		delete(w.matched, k)
	}
	var obj runtime.Object = e.Obj.DeepCopy()
	if w.typed {
		ns := &corev1.Namespace{}
		_ = runtime.DefaultUnstructuredConverter.FromUnstructured(e.Obj.Object, ns)
		obj = ns
	}
	w.queue = append(w.queue, watch.Event{Type: t, Object: obj})
}

// ---------------------------------------------------------------- write API of the workload's mutator

func mkObj(kind, ns, name string, lbls map[string]string, data map[string]any) *unstructured.Unstructured {
	md := map[string]any{"name": name}
	if ns != "" {
		md["namespace"] = ns
	}
	if len(lbls) > 0 {
		l := map[string]any{}
		for k, v := range lbls {
			l[k] = v
		}
		md["labels"] = l
	}
	o := map[string]any{"apiVersion": "v1", "kind": kind, "metadata": md}
	for k, v := range data {
		o[k] = v
	}
	return &unstructured.Unstructured{Object: o}
}

// Apply creates or replaces an object; returns the acknowledged resource version.
func (a *APIServer) Apply(gvr schema.GroupVersionResource, obj *unstructured.Unstructured) uint64 {
	a.mu.Lock()
	defer a.mu.Unlock()
	k := okey(gvr, obj.GetNamespace(), obj.GetName())
	if _, ok := a.cur[k]; ok {
		a.record(watch.Modified, gvr, obj, "mutator")
	} else {
		a.record(watch.Added, gvr, obj, "mutator")
	}
	return a.rv
}

// Delete removes an object; returns 0 when it did not exist (nothing acknowledged).
func (a *APIServer) Delete(gvr schema.GroupVersionResource, ns, name string) uint64 {
	a.mu.Lock()
	defer a.mu.Unlock()
	k := okey(gvr, ns, name)
	if o, ok := a.cur[k]; ok {
		a.record(watch.Deleted, gvr, o, "mutator")
		return a.rv
	}
	return 0
}

// DeleteNamespace deletes the namespace's objects first (as the namespace controller does), then the namespace.
func (a *APIServer) DeleteNamespace(name string) {
	a.mu.Lock()
	var keys []string
	for k, o := range a.cur {
		if o.GetNamespace() == name && !strings.HasPrefix(k, "namespaces|") {
			keys = append(keys, k)
		}
	}
	sort.Strings(keys)
	type del struct {
		gvr      schema.GroupVersionResource
		ns, name string
	}
	var dels []del
	for _, k := range keys {
		o := a.cur[k]
		dels = append(dels, del{gvrOfKind(o.GetKind()), o.GetNamespace(), o.GetName()})
	}
	a.mu.Unlock()
	for _, d := range dels {
		a.Delete(d.gvr, d.ns, d.name)
	}
	a.Delete(gvrNS, "", name)
}

func (a *APIServer) Get(gvr schema.GroupVersionResource, ns, name string) *unstructured.Unstructured {
	a.mu.Lock()
	defer a.mu.Unlock()
	if o, ok := a.cur[okey(gvr, ns, name)]; ok {
		return o.DeepCopy()
	}
	return nil
}

// Current returns the current objects of a resource matching the selectors (sorted by key).
func (a *APIServer) Current(gvr schema.GroupVersionResource, ns string, lsel labels.Selector, fsel fields.Selector) []*unstructured.Unstructured {
	a.mu.Lock()
	defer a.mu.Unlock()
	return a.list(gvr, ns, lsel, fsel)
}

func (a *APIServer) list(gvr schema.GroupVersionResource, ns string, lsel labels.Selector, fsel fields.Selector) []*unstructured.Unstructured {
	w := &simWatch{gvr: gvr, ns: ns, lsel: lsel, fsel: fsel}
	var keys []string
	for k, o := range a.cur {
		if strings.HasPrefix(k, gvr.Resource+"|") && w.matches(o) {
			keys = append(keys, k)
		}
	}
	sort.Strings(keys)
	var out []*unstructured.Unstructured
	for _, k := range keys {
		out = append(out, a.cur[k].DeepCopy())
	}
	return out
}

// ---------------------------------------------------------------- reactors (dynamic client)

func (a *APIServer) failWrite(verb string, gvr schema.GroupVersionResource, name string) error {
	if a.FailWriteName[name] > 0 {
		a.FailWriteName[name]--
		a.FaultedNames[name]++
		simrt.Count("fault:write-rejected")
		simrt.Logf("api FAULT reject %s %s/%s", verb, gvr.Resource, name)
		return apierrors.NewInternalError(fmt.Errorf("injected %s failure", verb))
	}
	if verb == "update" && a.ConflictUpdates > 0 {
		a.ConflictUpdates--
		simrt.Count("fault:update-conflict")
		simrt.Logf("api FAULT conflict on update %s/%s", gvr.Resource, name)
		return apierrors.NewConflict(gvr.GroupResource(), name, fmt.Errorf("the object has been modified; please apply your changes to the latest version and try again"))
	}
	if a.FailWrite[verb] > 0 {
		a.FailWrite[verb]--
		simrt.Count("fault:write-rejected")
		simrt.Logf("api FAULT reject %s %s/%s", verb, gvr.Resource, name)
		return apierrors.NewInternalError(fmt.Errorf("injected %s failure", verb))
	}
	return nil
}

func (a *APIServer) react(action ktesting.Action) (bool, runtime.Object, error) {
	gvr := action.GetResource()
	switch act := action.(type) {
	case ktesting.ListActionImpl:
		a.mu.Lock()
		defer a.mu.Unlock()
		if a.FailList[gvr.Resource] > 0 {
			a.FailList[gvr.Resource]--
			simrt.Count("fault:list-failed")
			simrt.Logf("api FAULT list %s fails", gvr.Resource)
			if a.Obs != nil {
				delete(a.Obs.pendingL1, simrt.GoID()) // this goroutine's pending initial list failed
			}
			return true, nil, apierrors.NewInternalError(fmt.Errorf("injected list failure"))
		}
		lr := act.GetListRestrictions()
		items := a.list(gvr, act.GetNamespace(), lr.Labels, lr.Fields)
		l := &unstructured.UnstructuredList{}
		l.SetAPIVersion(act.GetKind().GroupVersion().String())
		l.SetKind(act.GetKind().Kind + "List")
		l.SetResourceVersion(strconv.FormatUint(a.rv, 10))
		rec := listRecord{Seq: a.e.Seq(), GVR: gvr, NS: act.GetNamespace(), Sel: fmt.Sprint(lr.Labels) + "|" + fmt.Sprint(lr.Fields), RV: a.rv}
		for _, it := range items {
			l.Items = append(l.Items, *it)
			rec.Keys = append(rec.Keys, okey(gvr, it.GetNamespace(), it.GetName()))
			rec.RVs = append(rec.RVs, rvOf(it))
		}
		a.Lists = append(a.Lists, rec)
		a.Obs.ListServed(items)
		simrt.Logf("api list %s ns=%q n=%d rv=%d", gvr.Resource, act.GetNamespace(), len(items), a.rv)
		return true, l, nil
	case ktesting.CreateActionImpl:
		u := act.GetObject().(*unstructured.Unstructured).DeepCopy()
		if u.GetNamespace() == "" {
			u.SetNamespace(act.GetNamespace())
		}
		a.mu.Lock()
		defer a.mu.Unlock()
		if err := a.failWrite("create", gvr, u.GetName()); err != nil {
			return true, nil, err
		}
		if _, ok := a.cur[okey(gvr, u.GetNamespace(), u.GetName())]; ok {
			return true, nil, apierrors.NewAlreadyExists(gvr.GroupResource(), u.GetName())
		}
		return true, a.record(watch.Added, gvr, u, a.By).DeepCopy(), nil
	case ktesting.UpdateActionImpl:
		u := act.GetObject().(*unstructured.Unstructured).DeepCopy()
		if u.GetNamespace() == "" {
			u.SetNamespace(act.GetNamespace())
		}
		a.mu.Lock()
		defer a.mu.Unlock()
		if err := a.failWrite("update", gvr, u.GetName()); err != nil {
			return true, nil, err
		}
		old, ok := a.cur[okey(gvr, u.GetNamespace(), u.GetName())]
		if !ok {
			return true, nil, apierrors.NewNotFound(gvr.GroupResource(), u.GetName())
		}
		if act.GetSubresource() == "status" {
			// only .status is taken from the update
			n := old.DeepCopy()
			if st, found, _ := unstructured.NestedFieldCopy(u.Object, "status"); found {
				_ = unstructured.SetNestedField(n.Object, st, "status")
			}
			u = n
		}
		return true, a.record(watch.Modified, gvr, u, a.By).DeepCopy(), nil
	case ktesting.PatchActionImpl:
		a.mu.Lock()
		defer a.mu.Unlock()
		if err := a.failWrite("patch", gvr, act.GetName()); err != nil {
			return true, nil, err
		}
		old, ok := a.cur[okey(gvr, act.GetNamespace(), act.GetName())]
		if !ok {
			return true, nil, apierrors.NewNotFound(gvr.GroupResource(), act.GetName())
		}
		oldJSON, _ := json.Marshal(old.Object)
		var newJSON []byte
		var err error
		switch act.GetPatchType() {
		case types.JSONPatchType:
			var p jsonpatch.Patch
			p, err = jsonpatch.DecodePatch(act.GetPatch())
			if err == nil {
				newJSON, err = p.Apply(oldJSON)
			}
		case types.MergePatchType:
			newJSON, err = jsonpatch.MergePatch(oldJSON, act.GetPatch())
		default:
			err = fmt.Errorf("patch type %s is not modelled", act.GetPatchType())
		}
		if err != nil {
			return true, nil, apierrors.NewBadRequest(err.Error())
		}
		n := &unstructured.Unstructured{}
		if err := json.Unmarshal(newJSON, &n.Object); err != nil {
			return true, nil, apierrors.NewBadRequest(err.Error())
		}
		if act.GetSubresource() == "status" {
			m := old.DeepCopy()
			if st, found, _ := unstructured.NestedFieldCopy(n.Object, "status"); found {
				_ = unstructured.SetNestedField(m.Object, st, "status")
			}
			n = m
		}
		return true, a.record(watch.Modified, gvr, n, a.By).DeepCopy(), nil
	case ktesting.DeleteActionImpl:
		a.mu.Lock()
		defer a.mu.Unlock()
		if err := a.failWrite("delete", gvr, act.GetName()); err != nil {
			return true, nil, err
		}
		o, ok := a.cur[okey(gvr, act.GetNamespace(), act.GetName())]
		if !ok {
			return true, nil, apierrors.NewNotFound(gvr.GroupResource(), act.GetName())
		}
		if a.SlowDeleteNames[act.GetNamespace()+"/"+act.GetName()] && o.GetDeletionTimestamp() == nil {
			// the object is only marked: it stays visible (terminating) and goes away later
			delete(a.SlowDeleteNames, act.GetNamespace()+"/"+act.GetName())
			simrt.Count("fault:slow-foreground-delete")
			t := o.DeepCopy()
			now := metav1.NewTime(time.Unix(1700000000, 0))
			t.SetDeletionTimestamp(&now)
			a.record(watch.Modified, gvr, t, "terminating")
			ns, name, by := act.GetNamespace(), act.GetName(), a.By
			simrt.GoNamed("terminator:"+name, func() {
				simrt.Sleep(2500 * time.Millisecond)
				a.mu.Lock()
				if cur, ok := a.cur[okey(gvr, ns, name)]; ok && cur.GetDeletionTimestamp() != nil {
					a.record(watch.Deleted, gvr, cur, by)
				}
				a.mu.Unlock()
			})
			return true, nil, nil
		}
		a.record(watch.Deleted, gvr, o, a.By)
		return true, nil, nil
	case ktesting.GetActionImpl:
		a.mu.Lock()
		defer a.mu.Unlock()
		o, ok := a.cur[okey(gvr, act.GetNamespace(), act.GetName())]
		if !ok {
			return true, nil, apierrors.NewNotFound(gvr.GroupResource(), act.GetName())
		}
		return true, o.DeepCopy(), nil
	}
	return false, nil, nil
}

func (a *APIServer) newWatch(gvr schema.GroupVersionResource, ns string, wr ktesting.WatchRestrictions, typed bool) (*simWatch, error) {
	base := "watch|" + gvr.Resource + "|" + ns + "|" + fmt.Sprint(wr.Labels) + "|" + fmt.Sprint(wr.Fields)
	from, _ := strconv.ParseUint(wr.ResourceVersion, 10, 64)
	if from < a.compactRV {
		simrt.Count("fault:watch-expired")
		simrt.Logf("api watch %s from=%d -> 410 Gone", base, from)
		return nil, apierrors.NewResourceExpired("too old resource version (injected)")
	}
	a.nwatch[base]++
	w := &simWatch{key: base + "#" + strconv.Itoa(a.nwatch[base]), gvr: gvr, ns: ns, lsel: wr.Labels, fsel: wr.Fields,
		matched: map[string]bool{}, result: make(chan watch.Event), typed: typed}
	// matched set as of rv=from, then replay of newer entries: no list/watch gap
	for _, e := range a.Log {
		if e.GVR != gvr {
			continue
		}
		if e.RV <= from {
			if e.Type != watch.Deleted && w.matches(e.Obj) {
				w.matched[e.Key()] = true
			} else {
				delete(w.matched, e.Key())
			}
		} else {
			a.feed(w, e)
		}
	}
	a.watches = append(a.watches, w)
	simrt.Logf("api watch %s from=%d replay=%d", w.key, from, len(w.queue))
	a.startPump(w)
	return w, nil
}

func (a *APIServer) startPump(w *simWatch) {
	simrt.GoNamed("pump:"+w.key, func() {
		for {
			simrt.BlockUntil("pump-wait", func() bool { return w.stopped || w.closed || len(w.queue) > 0 })
			if w.stopped || w.closed {
				close(w.result)
				simrt.Settle("pump-closed")
				return
			}
			a.mu.Lock()
			ev := w.queue[0]
			w.queue = w.queue[1:]
			a.mu.Unlock()
			w.Sent++
			if u, ok := ev.Object.(*unstructured.Unstructured); ok {
				w.Shown = append(w.Shown, shownEvent{Seq: a.e.Seq(), Type: ev.Type, Key: okey(w.gvr, u.GetNamespace(), u.GetName()), RV: rvOf(u)})
			}
			w.result <- ev
			simrt.Settle("pump-sent")
		}
	})
}

func (a *APIServer) liveWatches(resource string) []*simWatch {
	var live []*simWatch
	for _, w := range a.watches {
		if !w.stopped && !w.closed && (resource == "" || w.gvr.Resource == resource) {
			live = append(live, w)
		}
	}
	return live
}

// CloseWatch is the "partition + heal" fault: the stream ends, the reflector relists / rewatches.
func (a *APIServer) CloseWatch(i int, expire bool) bool {
	a.mu.Lock()
	defer a.mu.Unlock()
	live := a.liveWatches("")
	if len(live) == 0 {
		return false
	}
	w := live[i%len(live)]
	w.closed = true
	simrt.Count("fault:watch-closed")
	if expire {
		// the next watch from an old resource version answers 410 Gone -> full relist
		a.compactRV = a.rv
	}
	simrt.Logf("api FAULT close %s expire=%v", w.key, expire)
	return true
}

// Drained reports whether every live watch has delivered everything queued.
func (a *APIServer) Drained() bool {
	for _, w := range a.watches {
		if !w.stopped && !w.closed && len(w.queue) > 0 {
			return false
		}
	}
	return true
}

// StopAll ends all pumps (teardown).
func (a *APIServer) StopAll() {
	for _, w := range a.watches {
		w.stopped = true
	}
}

func (a *APIServer) reactWatch(action ktesting.Action) (bool, watch.Interface, error) {
	act := action.(ktesting.WatchActionImpl)
	a.mu.Lock()
	defer a.mu.Unlock()
	w, err := a.newWatch(act.GetResource(), act.GetNamespace(), act.GetWatchRestrictions(), false)
	if err != nil {
		return true, nil, err
	}
	return true, w, nil
}

// ---------------------------------------------------------------- typed namespaces (namespace informer)

func nsToUnstructured(o runtime.Object) *unstructured.Unstructured {
	m, _ := runtime.DefaultUnstructuredConverter.ToUnstructured(o)
	u := &unstructured.Unstructured{Object: m}
	u.SetAPIVersion("v1")
	u.SetKind("Namespace")
	unstructured.RemoveNestedField(u.Object, "metadata", "creationTimestamp")
	unstructured.RemoveNestedField(u.Object, "spec")
	unstructured.RemoveNestedField(u.Object, "status")
	return u
}

func (a *APIServer) reactTypedNs(action ktesting.Action) (bool, runtime.Object, error) {
	switch act := action.(type) {
	case ktesting.ListActionImpl:
		a.mu.Lock()
		defer a.mu.Unlock()
		if a.FailList["namespaces"] > 0 {
			a.FailList["namespaces"]--
			simrt.Count("fault:list-failed")
			return true, nil, apierrors.NewInternalError(fmt.Errorf("injected list failure"))
		}
		lr := act.GetListRestrictions()
		items := a.list(gvrNS, "", lr.Labels, lr.Fields)
		l := &corev1.NamespaceList{}
		l.ResourceVersion = strconv.FormatUint(a.rv, 10)
		for _, it := range items {
			ns := corev1.Namespace{}
			_ = runtime.DefaultUnstructuredConverter.FromUnstructured(it.Object, &ns)
			l.Items = append(l.Items, ns)
		}
		a.Lists = append(a.Lists, listRecord{Seq: a.e.Seq(), GVR: gvrNS, Sel: fmt.Sprint(lr.Labels) + "|" + fmt.Sprint(lr.Fields), RV: a.rv})
		simrt.Logf("api list namespaces n=%d rv=%d", len(items), a.rv)
		return true, l, nil
	case ktesting.CreateActionImpl:
		a.Apply(gvrNS, nsToUnstructured(act.GetObject()))
		return true, act.GetObject(), nil
	case ktesting.GetActionImpl:
		a.mu.Lock()
		defer a.mu.Unlock()
		o, ok := a.cur[okey(gvrNS, "", act.GetName())]
		if !ok {
			return true, nil, apierrors.NewNotFound(gvrNS.GroupResource(), act.GetName())
		}
		ns := &corev1.Namespace{}
		_ = runtime.DefaultUnstructuredConverter.FromUnstructured(o.Object, ns)
		return true, ns, nil
	}
	return false, nil, nil
}

func (a *APIServer) reactWatchTypedNs(action ktesting.Action) (bool, watch.Interface, error) {
	act := action.(ktesting.WatchActionImpl)
	a.mu.Lock()
	defer a.mu.Unlock()
	w, err := a.newWatch(gvrNS, "", act.GetWatchRestrictions(), true)
	if err != nil {
		return true, nil, err
	}
	return true, w, nil
}

// ApplyNamespace creates or relabels a namespace.
func (a *APIServer) ApplyNamespace(name string, lbls map[string]string) uint64 {
	return a.Apply(gvrNS, mkObj("Namespace", "", name, lbls, nil))
}

func rvOf(o *unstructured.Unstructured) uint64 {
	if o == nil {
		return 0
	}
	v, _ := strconv.ParseUint(o.GetResourceVersion(), 10, 64)
	return v
}

var _ = metav1.ListOptions{}

// ---------------------------------------------------------------- slow answers (transport seam in front of the fake client)
//
// A reactor must not wait (client-go's Fake holds its lock while reactors run), so slowness is injected one
// layer up: the operator's dynamic client is wrapped, and a list that is to be slow waits in simulated time
// before it is passed on.

type slowDynamic struct {
	dynamic.Interface
	api *APIServer
}

func (s slowDynamic) Resource(r schema.GroupVersionResource) dynamic.NamespaceableResourceInterface {
	return slowResource{s.Interface.Resource(r), r, s.api}
}

type slowResource struct {
	dynamic.NamespaceableResourceInterface
	gvr schema.GroupVersionResource
	api *APIServer
}

func (s slowResource) Namespace(ns string) dynamic.ResourceInterface {
	return slowNsResource{s.NamespaceableResourceInterface.Namespace(ns), s.gvr, s.api}
}

func (s slowResource) List(ctx context.Context, opts metav1.ListOptions) (*unstructured.UnstructuredList, error) {
	s.api.maybeSlowList(s.gvr)
	return s.NamespaceableResourceInterface.List(ctx, opts)
}

type slowNsResource struct {
	dynamic.ResourceInterface
	gvr schema.GroupVersionResource
	api *APIServer
}

func (s slowNsResource) List(ctx context.Context, opts metav1.ListOptions) (*unstructured.UnstructuredList, error) {
	s.api.maybeSlowList(s.gvr)
	return s.ResourceInterface.List(ctx, opts)
}

func (a *APIServer) maybeSlowList(gvr schema.GroupVersionResource) {
	if !simrt.IsTask() {
		// lists of client-go's own goroutines (reflectors) are not slowed: a goroutine outside the scheduler
		// that wakes from a timer runs concurrently with the task the scheduler resumes (found by the
		// determinism self-test); the operator's own lists (loadExistedObjects) are made by tasks
		return
	}
	a.mu.Lock()
	slow := a.SlowList[gvr.Resource] > 0
	d := a.SlowListDur
	if slow {
		a.SlowList[gvr.Resource]--
	}
	a.mu.Unlock()
	if slow {
		simrt.Count("fault:slow-list")
		simrt.Logf("api FAULT list %s takes %v", gvr.Resource, d)
		simrt.Sleep(d)
	}
}

// WrapDynamic puts the slow-answer layer in front of the client's dynamic interface (unexported field of
// kube-client's Client, set through reflection: the simulator owns the transport).
func (a *APIServer) WrapDynamic(c any) {
	v := reflect.ValueOf(c).Elem().FieldByName("dynamicClient")
	v = reflect.NewAt(v.Type(), unsafe.Pointer(v.UnsafeAddr())).Elem()
	inner := v.Interface().(dynamic.Interface)
	v.Set(reflect.ValueOf(slowDynamic{inner, a}))
}
