package harness

// C13: the patch file. One hook with a per-second schedule binding in its own queue; every
// execution writes a generated stream of operation documents to KUBERNETES_PATCH_PATH, once
// as JSON against namespace "j" and (next execution) the same documents as YAML against
// namespace "y". The API-server log of the ObjectPatcher's writes is compared with a
// reference model store; JSON and YAML twins must produce the same writes.

import (
	"encoding/json"
	"fmt"
	"strconv"
	"strings"
	"time"

	jsonpatch "github.com/evanphx/json-patch"
	"github.com/itchyny/gojq"
	"k8s.io/apimachinery/pkg/apis/meta/v1/unstructured"
	k8yaml "sigs.k8s.io/yaml"

	"github.com/flant/shell-operator/pkg/task/queue"
	simrt "verifsimrt"
)

func init() {
	register(&Workload{Name: "patch", Run: runPatchWL})
	plans["C13"] = []Part{
		{WL: "patch", Cfg: "prop=C13", Quick: 250, Thor: 6000},
		{WL: "patch", Cfg: "prop=C13,writefaults=1", Quick: 100, Thor: 3000},
		{WL: "patch", Cfg: "prop=C13,conflicts=1", Quick: 150, Thor: 4000},
		{WL: "patch", Cfg: "prop=C13,slowdelete=1", Quick: 150, Thor: 4000},
	}
}

type pDoc struct {
	M       map[string]any // the document with namespace placeholder "@NS@"
	Invalid bool
	Desc    string
}

type pWrite struct {
	Type string
	Name string
	Obj  string // canonical JSON without namespace and resourceVersion
}

func stripObj(o map[string]any) string {
	b, _ := json.Marshal(o)
	var c map[string]any
	_ = json.Unmarshal(b, &c)
	if md, ok := c["metadata"].(map[string]any); ok {
		delete(md, "namespace")
		delete(md, "resourceVersion")
		delete(md, "deletionTimestamp")
	}
	return canonJSON(c)
}

func substNS(v any, ns string) any {
	switch x := v.(type) {
	case string:
		return strings.ReplaceAll(x, "@NS@", ns)
	case map[string]any:
		m := map[string]any{}
		for k, e := range x {
			m[k] = substNS(e, ns)
		}
		return m
	case []any:
		var l []any
		for _, e := range x {
			l = append(l, substNS(e, ns))
		}
		return l
	}
	return v
}

// refApply applies one valid document to the model store (objects of one namespace, by name);
// returns the write it causes (nil = none) and whether the operation reports an error.
func refApply(store map[string]map[string]any, d map[string]any) (*pWrite, bool) {
	op, _ := d["operation"].(string)
	name, _ := d["name"].(string)
	objOf := func() map[string]any {
		switch o := d["object"].(type) {
		case map[string]any:
			return o
		case string:
			var m map[string]any
			if err := k8yaml.Unmarshal([]byte(o), &m); err == nil {
				return m
			}
		}
		return nil
	}
	clone := func(m map[string]any) map[string]any {
		b, _ := json.Marshal(m)
		var c map[string]any
		_ = json.Unmarshal(b, &c)
		return c
	}
	switch op {
	case "Create", "CreateIfNotExists", "CreateOrUpdate":
		o := objOf()
		if o == nil {
			return nil, true
		}
		md, _ := o["metadata"].(map[string]any)
		n := fmt.Sprint(md["name"])
		_, exists := store[n]
		switch {
		case !exists:
			store[n] = clone(o)
			return &pWrite{"ADDED", n, stripObj(o)}, false
		case op == "Create":
			return nil, true
		case op == "CreateIfNotExists":
			return nil, false
		default:
			store[n] = clone(o)
			return &pWrite{"MODIFIED", n, stripObj(o)}, false
		}
	case "Delete", "DeleteInBackground", "DeleteNonCascading":
		if _, ok := store[name]; ok {
			last := store[name]
			delete(store, name)
			return &pWrite{"DELETED", name, stripObj(last)}, false
		}
		return nil, false
	case "MergePatch", "JSONPatch", "JQPatch":
		cur, ok := store[name]
		if !ok {
			ignore, _ := d["ignoreMissingObject"].(bool)
			return nil, !ignore
		}
		curJSON, _ := json.Marshal(cur)
		var out []byte
		var err error
		switch op {
		case "MergePatch":
			var pb []byte
			switch p := d["mergePatch"].(type) {
			case string:
				pb, _ = k8yaml.YAMLToJSON([]byte(p))
			default:
				pb, _ = json.Marshal(p)
			}
			out, err = jsonpatch.MergePatch(curJSON, pb)
		case "JSONPatch":
			var pb []byte
			switch p := d["jsonPatch"].(type) {
			case string:
				pb, _ = k8yaml.YAMLToJSON([]byte(p))
			default:
				pb, _ = json.Marshal(p)
			}
			var jp jsonpatch.Patch
			jp, err = jsonpatch.DecodePatch(pb)
			if err == nil {
				out, err = jp.Apply(curJSON)
			}
		case "JQPatch":
			q, perr := gojq.Parse(fmt.Sprint(d["jqFilter"]))
			if perr != nil {
				return nil, true
			}
			var in any
			_ = json.Unmarshal(curJSON, &in)
			it := q.Run(in)
			v, _ := it.Next()
			if e, isErr := v.(error); isErr || v == nil {
				_ = e
				return nil, true
			}
			out, _ = json.Marshal(v)
			if canonJSON(v) == canonJSON(in) {
				return nil, false // unchanged: no update call
			}
		}
		if err != nil {
			return nil, true
		}
		var n map[string]any
		_ = json.Unmarshal(out, &n)
		store[name] = n
		return &pWrite{"MODIFIED", name, stripObj(n)}, false
	}
	return nil, true
}

func runPatchWL(e *Env) {
	wl := e.WL
	webhookPolicy(e, "pkg/kube/object_patch/", "pkg/shell-operator/operator.go")
	writeFaults := e.CfgIs("writefaults", "1")
	slowDelete := e.CfgIs("slowdelete", "1")
	conflicts := e.CfgIs("conflicts", "1")
	h := &HookSpec{Path: "p.sh", Sched: []SchedBinding{{Name: "tick", Crontab: "* * * * * *", Queue: "pq"}}}
	o := NewOpSim(e, []*HookSpec{h})
	api := o.API
	api.ApplyNamespace("default", nil)
	api.ApplyNamespace("j", nil)
	api.ApplyNamespace("y", nil)
	// initial state, identical in both namespaces
	model := map[string]map[string]map[string]any{"j": {}, "y": {}}
	for i, n := 0, wl.Choose(3); i < n; i++ {
		name := "c" + strconv.Itoa(wl.Choose(3))
		for _, ns := range []string{"j", "y"} {
			obj := map[string]any{"apiVersion": "v1", "kind": "ConfigMap", "metadata": map[string]any{"name": name, "namespace": ns}, "data": map[string]any{"init": "1"}}
			api.Apply(gvrCMs, &unstructured.Unstructured{Object: obj})
			var c map[string]any
			b, _ := json.Marshal(obj)
			_ = json.Unmarshal(b, &c)
			model[ns][name] = c
		}
	}
	nv := 0
	genDoc := func() pDoc {
		name := "c" + strconv.Itoa(wl.Choose(3))
		nv++
		obj := map[string]any{"apiVersion": "v1", "kind": "ConfigMap", "metadata": map[string]any{"name": name, "namespace": "@NS@"}, "data": map[string]any{"k" + strconv.Itoa(wl.Choose(2)): "v" + strconv.Itoa(nv), "n": nv}}
		var objField any = obj
		if wl.Bias(1, 4) {
			if wl.Choose(2) == 0 {
				objField = canonJSON(obj) // object given as a string (JSON text)
			} else {
				yb, _ := k8yaml.Marshal(obj)
				objField = string(yb) // object given as a string (YAML text)
			}
		}
		coords := map[string]any{"apiVersion": "v1", "kind": "ConfigMap", "namespace": "@NS@", "name": name}
		with := func(extra map[string]any) map[string]any {
			m := map[string]any{}
			for k, v := range coords {
				m[k] = v
			}
			for k, v := range extra {
				m[k] = v
			}
			return m
		}
		var d pDoc
		switch wl.Choose(9) {
		case 0:
			d.M = map[string]any{"operation": "Create", "object": objField}
		case 1:
			d.M = map[string]any{"operation": "CreateIfNotExists", "object": objField}
		case 2:
			d.M = map[string]any{"operation": "CreateOrUpdate", "object": objField}
		case 3:
			d.M = with(map[string]any{"operation": []string{"DeleteInBackground", "DeleteNonCascading", "Delete"}[wl.Choose(3)]})
			if slowDelete && wl.Bias(1, 2) {
				d.M["operation"] = "Delete"
			}
		case 4:
			d.M = with(map[string]any{"operation": "MergePatch", "mergePatch": map[string]any{"data": map[string]any{"m": "p" + strconv.Itoa(nv)}}})
		case 5:
			d.M = with(map[string]any{"operation": "MergePatch", "mergePatch": fmt.Sprintf(`{"data":{"m":"s%d"}}`, nv), "ignoreMissingObject": true})
		case 6:
			d.M = with(map[string]any{"operation": "JSONPatch", "jsonPatch": []any{map[string]any{"op": "add", "path": "/data/j", "value": "j" + strconv.Itoa(nv)}}, "ignoreMissingObject": wl.Choose(2) == 0})
		case 7:
			d.M = with(map[string]any{"operation": "JQPatch", "jqFilter": fmt.Sprintf(`.data.q = "q%d"`, nv), "ignoreMissingObject": wl.Choose(2) == 0})
		default:
			d.M = with(map[string]any{"operation": "DeleteInBackground"})
			if slowDelete && wl.Bias(2, 3) {
				d.M["operation"] = "Delete"
			}
		}
		d.Desc = fmt.Sprint(d.M["operation"], " ", name)
		return d
	}
	invalidDoc := func() pDoc {
		docs := []map[string]any{
			{"operation": "DeleteInBackground", "kind": "ConfigMap", "namespace": "@NS@"},    // name missing
			{"operation": "Explode", "kind": "ConfigMap", "name": "c0", "namespace": "@NS@"}, // unknown operation
			{"operation": "Create"}, // object missing
			{"operation": "MergePatch", "kind": "ConfigMap", "name": "c0", "namespace": "@NS@", "mergePatch": map[string]any{}},                                    // empty patch
			{"operation": "JSONPatch", "kind": "ConfigMap", "name": "c0", "namespace": "@NS@", "jsonPatch": []any{map[string]any{"op": "add", "path": "/data/x"}}}, // value missing
			{"operation": "JQPatch", "kind": "ConfigMap", "name": "c0", "namespace": "@NS@"},                                                                       // jqFilter missing
		}
		i := wl.Choose(len(docs))
		return pDoc{M: docs[i], Invalid: true, Desc: fmt.Sprint("INVALID#", i)}
	}
	type stream struct {
		Docs    []pDoc
		Invalid bool
		// syntactic fault: the line Syn inserted at document boundary SynPos (0..len(Docs)),
		// or, for "truncate", the last byte of the JSON text cut off (a partially written file)
		Syn    string
		SynPos int
	}
	var streams []stream
	nstreams := 2 + wl.Choose(4)
	for i := 0; i < nstreams; i++ {
		var st stream
		n := 1 + wl.Choose(5)
		bad := -1
		if wl.Bias(1, 4) {
			bad = wl.Choose(n)
		}
		for k := 0; k < n; k++ {
			if k == bad {
				st.Docs = append(st.Docs, invalidDoc())
				st.Invalid = true
			} else {
				st.Docs = append(st.Docs, genDoc())
			}
		}
		if wl.Bias(1, 5) {
			st.Syn = []string{"}", "]", "{", "[", ",", "\"", "}{", "truncate", "}", "]"}[wl.Choose(10)]
			st.SynPos = wl.Choose(n + 1)
		}
		streams = append(streams, st)
	}
	// invalidFor: is the stream, in the given form, invalid as a whole?
	invalidFor := func(st stream, yaml bool) bool {
		if st.Invalid {
			return true
		}
		if st.Syn == "" {
			return false
		}
		return st.Syn != "truncate" || !yaml
	}
	render := func(st stream, ns string, yaml bool) string {
		var parts []string
		for _, d := range st.Docs {
			m := substNS(d.M, ns).(map[string]any)
			if yaml {
				b, _ := k8yaml.Marshal(m)
				parts = append(parts, string(b))
			} else {
				parts = append(parts, canonJSON(m))
			}
		}
		if st.Syn != "" && st.Syn != "truncate" {
			if yaml {
				// a line of its own inside (or before) a document
				if st.SynPos == 0 {
					parts[0] = st.Syn + "\n" + parts[0]
				} else {
					parts[st.SynPos-1] += st.Syn + "\n"
				}
			} else {
				parts = append(parts[:st.SynPos:st.SynPos], append([]string{st.Syn}, parts[st.SynPos:]...)...)
			}
		}
		if yaml {
			return strings.Join(parts, "---\n")
		}
		txt := strings.Join(parts, "\n")
		if st.Syn == "truncate" {
			txt = txt[:len(txt)-1]
		}
		return txt
	}
	type run struct {
		Exec   *Exec
		Stream int
		NS     string
		YAML   bool
		Retry  bool
	}
	var runs []*run
	planned := 0
	o.Behave = func(x *Exec) {
		if len(x.Ctxs) == 0 || x.Ctxs[0].Type != "Schedule" {
			return
		}
		if planned >= 2*len(streams) {
			return
		}
		si, yaml := planned/2, planned%2 == 1
		ns := "j"
		if yaml {
			ns = "y"
		}
		planned++
		x.Patch = render(streams[si], ns, yaml)
		runs = append(runs, &run{Exec: x, Stream: si, NS: ns, YAML: yaml})
		if slowDelete {
			// foreground deletes of this execution leave the object terminating for 2.5 s: `Delete` waits
			// until it is gone, so the outcome equals the fault-free one
			api.mu.Lock()
			api.SlowDeleteNames = map[string]bool{}
			if e.FL.Choose(3) != 0 {
				other := map[string]bool{}
				for _, d := range streams[si].Docs {
					if op := fmt.Sprint(d.M["operation"]); op == "DeleteInBackground" || op == "DeleteNonCascading" {
						other[fmt.Sprint(d.M["name"])] = true
					}
				}
				for _, d := range streams[si].Docs {
					if n := fmt.Sprint(d.M["name"]); fmt.Sprint(d.M["operation"]) == "Delete" && !other[n] {
						api.SlowDeleteNames[ns+"/"+n] = true
					}
				}
			}
			api.mu.Unlock()
		}
		if conflicts {
			api.mu.Lock()
			api.ConflictUpdates = 0 // conflicts not consumed by the previous execution do not pile up
			api.mu.Unlock()
		}
		if conflicts && e.FL.Choose(2) == 0 {
			// optimistic-lock conflicts: the patcher must retry (CreateOrUpdate, JQPatch), the outcome is
			// that of a fault-free run
			api.mu.Lock()
			api.ConflictUpdates = 1 + e.FL.Choose(2) // fewer than the retry budget of client-go's DefaultBackoff (4 attempts)
			api.mu.Unlock()
		}
		if writeFaults && e.FL.Choose(4) == 0 {
			api.mu.Lock()
			api.FailWrite[[]string{"create", "update", "patch", "delete"}[e.FL.Choose(4)]]++
			api.mu.Unlock()
		}
	}
	finished := false
	simrt.GoNamed("boot", func() {
		o.Boot(true)
		e.S.Arm()
	})
	// a failed execution is detected by the retry pattern (same queue, back-off): mark it so that the
	// retry writes nothing. The worker thread calls Behave again for the retry.
	err := e.S.RunUntil(func() bool {
		return len(e.S.Panics) > 0 || (o.Booted && (o.BootErr != nil || (planned >= 2*len(streams) && o.inFlight == 0 && finished)))
	}, func() bool {
		// evaluated at every quiescence point: detect the end of a planned execution's task
		if !finished && planned >= 2*len(streams) && o.inFlight == 0 && len(runs) > 0 {
			last := runs[len(runs)-1].Exec
			settle := 8 * time.Second
			if slowDelete {
				settle = 30 * time.Second // several foreground deletes of one stream each wait for a terminating object
			}
			if last.EndSeq != 0 && e.Since()-last.End > settle {
				finished = true
			}
		}
		return false
	})
	if err != nil {
		e.Out.Truncated = true
	}
	if o.BootErr != nil {
		e.Out.Infra = "operator assembly failed: " + o.BootErr.Error()
	}
	panicsToViolations(e, "C13")
	e.Out.NonTrivial = len(streams) > 1
	if err == nil && o.BootErr == nil && len(e.S.Panics) == 0 {
		initial := queue.DefaultInitialDelayOnFailedTask
		var twin []pWrite
		twinValid := false
		formsDiverged := false
		for i, r := range runs {
			if r.Retry || r.Stream < 0 {
				continue
			}
			// writes of the patcher between the end of this execution and the start of the next one
			hi := int64(1 << 62)
			var next *Exec
			if i+1 < len(runs) {
				next = runs[i+1].Exec
				hi = next.StartSeq
			}
			var got []pWrite
			applied := r.Exec.End // when the last write of this execution's patch was acknowledged
			for _, w := range api.Log {
				if w.By == "patcher" && w.Seq > r.Exec.EndSeq && w.Seq < hi {
					got = append(got, pWrite{string(w.Type), w.Obj.GetName(), stripObj(w.Obj.Object)})
					if w.At > applied {
						applied = w.At
					}
				}
			}
			st := streams[r.Stream]
			desc := fmt.Sprintf("execution #%d (%s, namespace %s) wrote %q", r.Exec.N, map[bool]string{false: "JSON", true: "YAML"}[r.YAML], r.NS, r.Exec.Patch)
			// back-off before the retry (time spent applying the patch, e.g. waiting for a foreground delete, does not count)
			failedObserved := next != nil && next.Start-applied >= initial-time.Second
			if invalidFor(st, r.YAML) {
				simrt.Count("probe:stream-with-invalid-document")
				sfx := ""
				if !st.Invalid {
					simrt.Count("probe:stream-with-syntax-fault")
					sfx = ":syntax-fault"
				}
				if len(got) > 0 {
					e.Viol("C13", "P1", "invalid-stream-partly-applied"+sfx, "%s: a document is invalid, yet the API server saw writes %v", desc, got)
				}
				if next != nil && !failedObserved {
					e.Viol("C13", "P1", "invalid-stream-not-failed"+sfx, "%s: a document is invalid but the execution did not fail (next execution after %v)", desc, next.Start-r.Exec.End)
				}
				if !r.YAML {
					twin = nil
					twinValid = false
				}
				if st.Syn == "truncate" {
					formsDiverged = true // the two namespaces no longer hold the same state
				}
				continue
			}
			simrt.Count("probe:valid-stream")
			var want []pWrite
			anyErr := false
			for _, d := range st.Docs {
				w, isErr := refApply(model[r.NS], substNS(d.M, r.NS).(map[string]any))
				if w != nil {
					want = append(want, *w)
				}
				anyErr = anyErr || isErr
			}
			if writeFaults {
				continue // with rejected writes the model only constrains the fault-free part
			}
			if fmt.Sprint(got) != fmt.Sprint(want) {
				sig := "writes-differ"
				if len(got) < len(want) {
					sig = "operation-not-applied"
				} else if len(got) > len(want) {
					sig = "extra-write"
				}
				e.Viol("C13", "P2", sig, "%s: API server saw %v, the documents in order mean %v", desc, got, want)
				// resynchronise the model with reality to keep later comparisons meaningful
			}
			if next != nil && anyErr != failedObserved {
				e.Viol("C13", "P3", "failure-status", "%s: an operation reports an error=%v, execution failed=%v", desc, anyErr, failedObserved)
			}
			if r.YAML {
				if twinValid && !formsDiverged && fmt.Sprint(got) != fmt.Sprint(twin) {
					e.Viol("C13", "P4", "json-yaml-differ", "the same documents as JSON caused %v, as YAML %v (%s)", twin, got, desc)
				}
			} else {
				twin = got
				twinValid = true
			}
		}
	}
	if e.Detail {
		var rs []string
		for _, r := range runs {
			rs = append(rs, fmt.Sprintf("#%d stream %d ns=%s yaml=%v retry=%v t=%v..%v patch=%q", r.Exec.N, r.Stream, r.NS, r.YAML, r.Retry, r.Exec.Start, r.Exec.End, r.Exec.Patch))
		}
		e.Out.Sample = map[string]any{"executions": rs, "writes": o.DescribeWrites(60)}
	}
	o.Teardown()
}
