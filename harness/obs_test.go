package harness

// Observation of the informer layer and the reference model of event emission
// (shared by C01, C02, C08). Observations come from zzsimrt.Observe calls that
// the instrumenter inserts at the entry of four resourceInformer methods
// (instr/directives.json "observes"); they never influence the run.

import (
	"encoding/json"
	"fmt"
	"sort"
	"strings"
	"time"

	"github.com/itchyny/gojq"
	"k8s.io/apimachinery/pkg/apis/meta/v1/unstructured"
	"k8s.io/client-go/tools/cache"
	simrt "verifsimrt"
)

// shownRec: one state (or absence) of one object shown to one resourceInformer.
type shownRec struct {
	Seq  int64
	Type string // "List" (loadExistedObjects), "Added", "Modified", "Deleted"
	Key  string // ns/name
	RV   uint64
	Obj  *unstructured.Unstructured
}

type riObs struct {
	Ord        int
	CreatedSeq int64
	MonitorID  string
	NS, Name   string
	Shown      []shownRec
	Snapshots  []int64 // seq of getCachedObjects calls
	Unlocks    []int64 // seq of enableKubeEventCb calls
	loaded     bool
}

// qStatus: one status change of a queue worker (TaskQueue.SetStatus).
type qStatus struct {
	Seq    int64
	At     time.Duration
	Status string
}

type Observer struct {
	QStatus   map[string][]qStatus // per queue name
	NsiStart  map[string]int64     // monitor id -> seq at which its namespace informer was started
	MonCreate map[string]int64     // monitor id -> seq of the last CreateInformers call (a retried enabling task creates the monitor again)
	StopSeq   int64                // seq at which TaskQueueSet.WaitStopWithTimeout was entered (= TaskQueues.Stop() returned)
	StopAt    time.Duration
	e         *Env
	ris       map[any]*riObs
	Order     []*riObs
	pendingL1 map[int64]*riObs // per goroutine: loadExistedObjects entered, its list not yet served
}

func NewObserver(e *Env) *Observer {
	o := &Observer{e: e, ris: map[any]*riObs{}, QStatus: map[string][]qStatus{}, NsiStart: map[string]int64{}, MonCreate: map[string]int64{}, pendingL1: map[int64]*riObs{}}
	e.S.Observer = o.observe
	return o
}

func (o *Observer) ri(ptr any, mon, ns, name any) *riObs {
	r := o.ris[ptr]
	if r == nil {
		r = &riObs{CreatedSeq: o.e.Seq(), Ord: len(o.Order) + 1, MonitorID: fmt.Sprint(mon), NS: fmt.Sprint(ns), Name: fmt.Sprint(name)}
		o.ris[ptr] = r
		o.Order = append(o.Order, r)
	}
	return r
}

func (o *Observer) observe(name string, args ...any) {
	switch name {
	case "tqs.waitstop":
		if o.StopSeq == 0 {
			o.StopSeq = o.e.Seq()
			o.StopAt = o.e.Since()
		}
	case "mon.create":
		o.MonCreate[fmt.Sprint(args[0])] = o.e.Seq()
	case "nsi.start":
		if _, ok := o.NsiStart[fmt.Sprint(args[0])]; !ok {
			o.NsiStart[fmt.Sprint(args[0])] = o.e.Seq()
		}
	case "tq.status":
		qn := fmt.Sprint(args[0])
		o.QStatus[qn] = append(o.QStatus[qn], qStatus{Seq: o.e.Seq(), At: o.e.Since(), Status: fmt.Sprint(args[1])})
	case "ri.load":
		r := o.ri(args[0], args[1], args[2], args[3])
		o.pendingL1[simrt.GoID()] = r
	case "ri.event":
		r := o.ri(args[0], args[1], args[2], args[3])
		typ := fmt.Sprint(args[4])
		obj := args[5]
		if st, ok := obj.(cache.DeletedFinalStateUnknown); ok {
			obj = st.Obj
		}
		u, _ := obj.(*unstructured.Unstructured)
		if u == nil {
			return
		}
		r.Shown = append(r.Shown, shownRec{Seq: o.e.Seq(), Type: typ, Key: u.GetNamespace() + "/" + u.GetName(), RV: rvOf(u), Obj: u})
	case "ri.snapshot":
		r := o.ri(args[0], args[1], args[2], args[3])
		r.Snapshots = append(r.Snapshots, o.e.Seq())
	case "ri.unlock":
		r := o.ri(args[0], args[1], args[2], args[3])
		r.Unlocks = append(r.Unlocks, o.e.Seq())
	}
}

// ListServed is called by the API server model for every list answer; the first list after
// an "ri.load" observation is that informer's own initial list (loadExistedObjects).
func (o *Observer) ListServed(items []*unstructured.Unstructured) {
	if o == nil {
		return
	}
	// the list is served on the goroutine that called loadExistedObjects (the fake client runs its
	// reactors in the caller); informers of several bindings may be loading at the same time
	g := simrt.GoID()
	r := o.pendingL1[g]
	if r == nil {
		return
	}
	delete(o.pendingL1, g)
	r.loaded = true
	for _, it := range items {
		r.Shown = append(r.Shown, shownRec{Seq: o.e.Seq(), Type: "List", Key: it.GetNamespace() + "/" + it.GetName(), RV: rvOf(it), Obj: it.DeepCopy()})
	}
}

// ByMonitor returns the observed informers of a monitor in creation order. When the task that enables
// a hook's bindings fails and is retried, the monitor is created again under the same id and the first
// instance is dropped (its informers may keep receiving events that go nowhere): only the informers
// created since the last `CreateInformers` call of that monitor id count.
func (o *Observer) ByMonitor(id string) []*riObs {
	var out []*riObs
	since := o.MonCreate[id]
	for _, r := range o.Order {
		if r.MonitorID == id && r.CreatedSeq >= since {
			out = append(out, r)
		}
	}
	return out
}

// ---------------------------------------------------------------- projection (independent jq evaluation)

type projector struct {
	filter string
	code   *gojq.Code
	err    error
	cache  map[string]string
}

func newProjector(filter string) *projector {
	p := &projector{filter: filter, cache: map[string]string{}}
	if filter != "" {
		q, err := gojq.Parse(filter)
		if err != nil {
			p.err = err
			return p
		}
		p.code, p.err = gojq.Compile(q)
	}
	return p
}

// Proj returns the binding's projection of the object as canonical JSON: the whole object
// without a filter, else the full output stream of the jq program (one value: that value;
// several: the array of them, marked).
func (p *projector) Proj(u *unstructured.Unstructured) string {
	if p.filter == "" {
		b, _ := json.Marshal(u.Object)
		return string(b)
	}
	key := u.GetNamespace() + "/" + u.GetName() + "@" + u.GetResourceVersion()
	if v, ok := p.cache[key]; ok {
		return v
	}
	res := p.eval(u)
	p.cache[key] = res
	return res
}

func (p *projector) eval(u *unstructured.Unstructured) string {
	if p.err != nil {
		return "error:" + p.err.Error()
	}
	// normalise the input through JSON, as a process running jq would see it
	b, _ := json.Marshal(u.Object)
	var in any
	_ = json.Unmarshal(b, &in)
	it := p.code.Run(in)
	var outs []any
	for {
		v, ok := it.Next()
		if !ok {
			break
		}
		if err, isErr := v.(error); isErr {
			return "error:" + err.Error()
		}
		outs = append(outs, v)
	}
	if len(outs) == 1 {
		return canonJSON(outs[0])
	}
	return "stream:" + canonJSON(outs)
}

// Values returns the output values of the jq program for the object.
func (p *projector) Values(u *unstructured.Unstructured) ([]any, error) {
	if p.err != nil {
		return nil, p.err
	}
	b, _ := json.Marshal(u.Object)
	var in any
	_ = json.Unmarshal(b, &in)
	it := p.code.Run(in)
	var outs []any
	for {
		v, ok := it.Next()
		if !ok {
			break
		}
		if err, isErr := v.(error); isErr {
			return nil, err
		}
		outs = append(outs, v)
	}
	return outs, nil
}

// ---------------------------------------------------------------- emission reference (the C08 statement, executable)

type emission struct {
	Seq   int64 // when the state was shown
	Type  string
	Key   string
	RV    uint64
	Proj  string
	Cause string
}

func (e emission) String() string { return fmt.Sprintf("%s %s@%d", e.Type, e.Key, e.RV) }

// refEmissions replays what one informer was shown and returns the events the property
// demands: an Added/Modified change triggers iff its type is listed and the projection
// differs from the last one known for that object; Deleted triggers iff listed.
// It also returns the last known projection per object (what snapshots must show).
func refEmissions(shown []shownRec, events []string, p *projector) ([]emission, map[string]shownRec) {
	listed := map[string]bool{}
	for _, e := range events {
		listed[e] = true
	}
	last := map[string]string{}
	lastRec := map[string]shownRec{}
	var out []emission
	for _, s := range shown {
		switch s.Type {
		case "List":
			last[s.Key] = p.Proj(s.Obj)
			lastRec[s.Key] = s
		case "Added", "Modified":
			pr := p.Proj(s.Obj)
			prev, known := last[s.Key]
			last[s.Key] = pr
			lastRec[s.Key] = s
			if known && prev == pr {
				continue
			}
			if listed[s.Type] {
				out = append(out, emission{Seq: s.Seq, Type: s.Type, Key: s.Key, RV: s.RV, Proj: pr})
			}
		case "Deleted":
			delete(last, s.Key)
			delete(lastRec, s.Key)
			if listed["Deleted"] {
				out = append(out, emission{Seq: s.Seq, Type: "Deleted", Key: s.Key, RV: s.RV})
			}
		}
	}
	return out, lastRec
}

func emissionsString(es []emission) string {
	var parts []string
	for _, e := range es {
		parts = append(parts, e.String())
	}
	return "[" + strings.Join(parts, ", ") + "]"
}

func sortedKeys[V any](m map[string]V) []string {
	ks := make([]string, 0, len(m))
	for k := range m {
		ks = append(ks, k)
	}
	sort.Strings(ks)
	return ks
}
