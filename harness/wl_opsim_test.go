package harness

// The generic whole-operator workload: generated hooks directory and cluster history,
// scripted hook behaviour, transport faults; oracles of several properties are evaluated
// on the same run (a check only counts the violations of its own property).

import (
	"context"
	"fmt"
	"github.com/flant/shell-operator/pkg/task/queue"
	"sort"
	"strconv"
	"strings"
	"time"

	"k8s.io/apimachinery/pkg/apis/meta/v1/unstructured"
	"k8s.io/apimachinery/pkg/fields"
	"k8s.io/apimachinery/pkg/labels"

	simrt "verifsimrt"
)

func init() {
	register(&Workload{Name: "opsim", Run: runOpsimWL})
	plans["C01"] = append(plans["C01"],
		Part{WL: "opsim", Cfg: "prop=C01", Quick: 250, Thor: 6000},
		Part{WL: "opsim", Cfg: "prop=C01,t=T1", Quick: 100, Thor: 3000},
		// hook failures: a failed (combined) Synchronization is retried; its bindings must all be unlocked in the end
		Part{WL: "opsim", Cfg: "prop=C01,fail=40", Quick: 300, Thor: 6000})
	plans["C02"] = []Part{
		{WL: "opsim", Cfg: "prop=C02", Quick: 250, Thor: 8000},
		{WL: "opsim", Cfg: "prop=C02,t=T1", Quick: 120, Thor: 4000},
		{WL: "opsim", Cfg: "prop=C02,restart=1", Quick: 120, Thor: 4000},
		{WL: "opsim", Cfg: "prop=C02,focus=snap,k=400", Quick: 200, Thor: 6000},
		// namespaces that stop matching (label removed), are deleted with their objects, and come back
		{WL: "opsim", Cfg: "prop=C02,nsdel=1", Quick: 200, Thor: 6000},
	}
	plans["C17"] = []Part{
		{WL: "opsim", Cfg: "prop=C17", Quick: 300, Thor: 8000},
		{WL: "opsim", Cfg: "prop=C17,stopk=300", Quick: 300, Thor: 8000},
		{WL: "opsim", Cfg: "prop=C17,t=T1", Quick: 100, Thor: 3000},
		{WL: "opsim", Cfg: "prop=C17,stopat=wait", Quick: 300, Thor: 8000},
		// the stop request races with start-up (queues still being created, hooks being enabled)
		{WL: "opsim", Cfg: "prop=C17,stopduring=start,stopk=40", Quick: 300, Thor: 8000},
		// the API server answers one list slowly (3-8 s) while bindings are being enabled; the stop arrives meanwhile
		{WL: "opsim", Cfg: "prop=C17,stopk=300,slowlist=1", Quick: 200, Thor: 6000},
	}
	plans["C18"] = []Part{
		{WL: "opsim", Cfg: "prop=C18", Quick: 400, Thor: 10000},
	}
	plans["C09"] = []Part{
		{WL: "opsim", Cfg: "prop=C09", Quick: 400, Thor: 8000},
		{WL: "opsim", Cfg: "prop=C09,t=T1", Quick: 150, Thor: 3000},
		// change points inside the jq evaluation and the informer callbacks of concurrent bindings
		{WL: "opsim", Cfg: "prop=C09,focus=jq+ri,k=500", Quick: 250, Thor: 6000},
	}
	plans["C03"] = []Part{
		{WL: "opsim", Cfg: "prop=C03", Quick: 400, Thor: 8000},
		{WL: "opsim", Cfg: "prop=C03,t=T1", Quick: 150, Thor: 3000},
	}
	plans["C04"] = []Part{
		{WL: "opsim", Cfg: "prop=C04", Quick: 400, Thor: 8000},
		// hooks that also serve admission webhooks: requests arrive while a failed queued task waits for its retry
		{WL: "admission", Cfg: "prop=C04", Quick: 150, Thor: 4000},
	}
	plans["C06"] = []Part{
		{WL: "opsim", Cfg: "prop=C06", Quick: 250, Thor: 6000},
		{WL: "opsim", Cfg: "prop=C06,t=T1", Quick: 80, Thor: 3000},
		{WL: "opsim", Cfg: "prop=C06,restart=1,fail=0", Quick: 80, Thor: 3000},
		{WL: "opsim", Cfg: "prop=C06,many=1", Quick: 150, Thor: 4000},
	}
}

type opsimOpts struct {
	Prop        string
	MaxHooks    int
	MaxKube     int
	Startup     int // percent of hooks with onStartup
	Sched       int // percent of hooks with a schedule binding
	Probe       bool
	Faults      bool
	FailPct     int // percent of tasks that fail k>0 times first
	Slow        bool
	NsDynamic   bool
	Groups      bool
	Queues      bool
	NoKube      bool
	Writes      int
	SharedCron  bool
	StartupFail bool
	Shutdown    bool // a task requests Shutdown() at a tape-chosen scheduler step
	Settings    bool // hooks with settings.executionMinInterval / executionBurst
	Patches     bool // some executions write a patch; the API server rejects the write of some of them
	Slow04      bool // hooks take a few hundred ms so that events pile up behind a running task
}

func presetFor(prop string) opsimOpts {
	o := opsimOpts{Prop: prop, MaxHooks: 2, MaxKube: 2, Startup: 40, Sched: 30, Writes: 10, Groups: true, Queues: true, NsDynamic: true}
	switch prop {
	case "C01":
		o.Sched, o.Startup = 15, 20
	case "C02":
		o.Probe, o.Sched = true, 0
		o.Writes = 14
	case "C03":
		o.Slow, o.MaxHooks, o.Sched = true, 3, 60
	case "C04", "C07":
		o.Settings = prop == "C07" // rate-limited hooks: tasks arrive while the head task waits for the limiter
		o.FailPct, o.Sched, o.StartupFail = 40, 40, true
		o.MaxKube, o.Writes, o.Slow04 = 3, 20, true
		o.Patches = prop == "C04"
	case "C06":
		o.MaxHooks, o.Startup, o.Sched, o.FailPct, o.StartupFail, o.Writes = 6, 70, 50, 20, true, 6
	case "C06many":
		// many hooks, most with equal ORDER values, no kubernetes bindings: start-up order only
		o.Prop, o.MaxHooks, o.Startup, o.Sched, o.FailPct, o.StartupFail, o.Writes, o.NoKube = "C06", 22, 90, 10, 10, true, 2, true
	case "C09":
		o.Sched, o.Startup = 40, 40
	case "C11":
		o.Sched, o.SharedCron, o.MaxHooks, o.Writes = 100, true, 3, 3
	case "C17":
		o.Slow, o.Sched, o.FailPct, o.MaxHooks, o.Shutdown = true, 60, 25, 3, true
	case "C18":
		o.Sched, o.Settings, o.Writes, o.NsDynamic, o.FailPct = 50, true, 24, false, 20
	}
	return o
}

type bindRef struct {
	Hook  string
	Kube  *KubeBinding
	Sched *SchedBinding
}

type Scenario struct {
	Hooks []*HookSpec
	binds map[string]*bindRef // hook|binding
	jq    map[string]*projector
}

func (sc *Scenario) bind(hook, name string) *bindRef { return sc.binds[hook+"|"+name] }

func (sc *Scenario) proj(filter string) *projector {
	if p, ok := sc.jq[filter]; ok {
		return p
	}
	p := newProjector(filter)
	sc.jq[filter] = p
	return p
}

var hookPaths = []string{"a.sh", "b.sh", "c/d.sh", "c/a.sh", "e.sh", "00-z.sh", "a/a.sh", "b", "z.py", "m/n/o.sh", "a.sh.bak", "B.sh", "aa.sh", "ab.sh", "c.sh", "d.sh", "f.sh", "g.sh", "h.sh", "i.sh", "j.sh", "k.sh"}

func genScenario(e *Env, o opsimOpts) *Scenario {
	wl := e.WL
	sc := &Scenario{binds: map[string]*bindRef{}, jq: map[string]*projector{}}
	nh := 1 + wl.Choose(o.MaxHooks)
	used := map[string]bool{}
	for i := 0; i < nh; i++ {
		var p string
		start := wl.Choose(len(hookPaths))
		for off := 0; off < len(hookPaths); off++ {
			p = hookPaths[(start+off)%len(hookPaths)]
			ok := !used[p]
			// a path must not be a directory prefix of another one
			for u := range used {
				if strings.HasPrefix(u, p+"/") || strings.HasPrefix(p, u+"/") {
					ok = false
				}
			}
			if ok {
				break
			}
		}
		used[p] = true
		h := &HookSpec{Path: p}
		if wl.Choose(100) < o.Startup {
			ord := []int{1, 1, 2, 5, 10}[wl.Choose(5)]
			h.OnStartup = &ord
		}
		if !o.NoKube {
			nk := wl.Choose(o.MaxKube + 1)
			if o.Prop == "C01" || o.Prop == "C02" || o.Prop == "C09" {
				nk = 1 + wl.Choose(o.MaxKube)
			}
			for k := 0; k < nk; k++ {
				b := KubeBinding{Name: "k" + strconv.Itoa(k), Kind: []string{"Pod", "ConfigMap"}[wl.Choose(2)]}
				switch wl.Choose(5) {
				case 1:
					b.NsNames = []string{"default"}
				case 2:
					b.NsNames = []string{"default", "nsa"}
				case 3:
					if o.NsDynamic {
						b.NsLabel = map[string]string{"env": "prod"}
					}
				}
				if wl.Bias(1, 5) {
					b.NameSel = []string{"o0", "o1"}
				}
				if (o.Prop == "C09" && wl.Bias(2, 3)) || (o.Prop != "C09" && wl.Bias(1, 3)) {
					// several expressions: concurrent bindings evaluate different filters
					b.JqFilter = []string{`{"v": .data.v}`, `{"v": .data.v}`, `{"n": .metadata.name, "ns": .metadata.namespace}`, `{"l": .metadata.labels}`, `{"d": .data, "k": .kind}`}[wl.Choose(5)]
					if wl.Bias(1, 2) {
						b.DropObjects = true
					}
				}
				evs := [][]string{nil, nil, nil, {"Added", "Modified", "Deleted"}, {"Added"}, {"Modified"}, {"Added", "Deleted"}, {"Modified", "Deleted"}, {}}
				b.Events = evs[wl.Choose(len(evs))]
				if b.Events != nil && len(b.Events) == 0 {
					b.EventsSet = true
				}
				b.NoSync = wl.Bias(1, 6)
				if o.Queues {
					b.Queue = []string{"", "", "q1", "q2"}[wl.Choose(4)]
				}
				if o.Groups && wl.Bias(1, 5) {
					b.Group = "g"
				}
				b.AllowFailure = wl.Bias(1, 4)
				if k > 0 && wl.Bias(1, 3) {
					b.IncludeSnapshots = []string{"k" + strconv.Itoa(wl.Choose(k))}
				}
				h.Kube = append(h.Kube, b)
			}
		}
		if wl.Choose(100) < o.Sched {
			ns := 1
			if o.SharedCron {
				ns = 1 + wl.Choose(2)
			}
			for k := 0; k < ns; k++ {
				s := SchedBinding{Name: "s" + strconv.Itoa(k), Crontab: []string{"*/2 * * * * *", "*/3 * * * * *", "* * * * * *"}[wl.Choose(3)]}
				if o.Queues {
					s.Queue = []string{"", "q1", "sq"}[wl.Choose(3)]
				}
				if o.Groups && wl.Bias(1, 5) {
					s.Group = "g"
				}
				s.AllowFailure = wl.Bias(1, 4)
				if len(h.Kube) > 0 && wl.Bias(1, 2) {
					s.IncludeSnapshots = []string{h.Kube[wl.Choose(len(h.Kube))].Name}
				}
				h.Sched = append(h.Sched, s)
			}
			if o.SharedCron && wl.Bias(1, 3) {
				// `name` is optional: every unnamed schedule binding of a hook is called "schedule"
				for k := range h.Sched {
					h.Sched[k].Name, h.Sched[k].Unnamed = "schedule", true
				}
			}
		}
		if o.Probe && len(h.Kube) > 0 {
			var all []string
			for _, b := range h.Kube {
				all = append(all, b.Name)
			}
			h.Sched = append(h.Sched, SchedBinding{Name: "probe", Crontab: "*/5 * * * * *", Queue: "probeq", IncludeSnapshots: all})
		}
		if o.Settings && wl.Choose(3) != 0 {
			h.Extra = map[string]any{"settings": map[string]any{
				"executionMinInterval": []string{"100ms", "500ms", "2s", "5s", "30s"}[wl.Choose(5)],
				"executionBurst":       1 + wl.Choose(5),
			}}
		}
		if h.OnStartup == nil && len(h.Kube) == 0 && len(h.Sched) == 0 {
			one := 1
			h.OnStartup = &one
		}
		sc.Hooks = append(sc.Hooks, h)
	}
	sort.Slice(sc.Hooks, func(i, j int) bool { return sc.Hooks[i].Path < sc.Hooks[j].Path })
	for _, h := range sc.Hooks {
		for i := range h.Kube {
			sc.binds[h.Path+"|"+h.Kube[i].Name] = &bindRef{Hook: h.Path, Kube: &h.Kube[i]}
		}
		for i := range h.Sched {
			sc.binds[h.Path+"|"+h.Sched[i].Name] = &bindRef{Hook: h.Path, Sched: &h.Sched[i]}
		}
	}
	return sc
}

// matching set of a kubernetes binding in the current cluster state
func matchingSet(api *APIServer, b *KubeBinding) map[string]*unstructured.Unstructured {
	out := map[string]*unstructured.Unstructured{}
	var lsel labels.Selector
	if b.LabelSel != nil {
		lsel = labels.SelectorFromSet(b.LabelSel)
	}
	nsOK := func(ns string) bool {
		if len(b.NsNames) > 0 {
			for _, n := range b.NsNames {
				if n == ns {
					return true
				}
			}
			return false
		}
		if b.NsLabel != nil {
			n := api.Get(gvrNS, "", ns)
			if n == nil {
				return false
			}
			return labels.SelectorFromSet(b.NsLabel).Matches(labels.Set(n.GetLabels()))
		}
		return true
	}
	for _, o := range api.Current(gvrOfKind(b.Kind), "", lsel, fields.Everything()) {
		if !nsOK(o.GetNamespace()) {
			continue
		}
		if len(b.NameSel) > 0 {
			ok := false
			for _, n := range b.NameSel {
				if n == o.GetName() {
					ok = true
				}
			}
			if !ok {
				continue
			}
		}
		out[o.GetNamespace()+"/"+o.GetName()] = o
	}
	return out
}

// OpRun is everything the oracles see of one opsim run.
type OpRun struct {
	e        *Env
	o        *OpSim
	sc       *Scenario
	obs      *Observer
	opts     opsimOpts
	monitors map[string]string // monitor id -> hook|binding
	bootSeq  int64
	endSeq   int64
	faults   bool
	quiet    bool // the run ended at quiescence (not truncated)
	failPlan map[string]int
	attempts map[string]int
}

func runOpsimWL(e *Env) {
	s := e.S
	wl := e.WL
	prop := e.Cfg["prop"]
	opts := presetFor(prop)
	if e.CfgIs("many", "1") {
		opts = presetFor(prop + "many")
	}
	opts.Faults = e.CfgIs("t", "T1")
	if _, ok := e.Cfg["fail"]; ok {
		opts.FailPct = e.CfgInt("fail", 0) // percentage of (hook, first context) pairs that fail once or twice
	}
	s.MaxYield = 3000000
	s.MaxStep = 150000
	s.MaxSim = 2 * time.Hour
	switch prop {
	case "C01", "C02", "C08":
		s.Focus = []string{"pkg/kube_events_manager/", "pkg/hook/controller/", "pkg/shell-operator/operator.go"}
	case "C03", "C04", "C05", "C17":
		s.Focus = []string{"pkg/task/queue/", "pkg/shell-operator/"}
	default:
		s.Focus = []string{"pkg/shell-operator/", "pkg/hook/"}
	}
	if f := e.Cfg["focus"]; f != "" {
		// narrow focus: change points only inside the named anchored file(s)
		s.Focus = nil
		for _, x := range strings.Split(f, "+") {
			s.Focus = append(s.Focus, map[string]string{
				"snap":    "pkg/hook/controller/hook_controller.go",
				"monitor": "pkg/kube_events_manager/monitor.go",
				"ri":      "pkg/kube_events_manager/resource_informer.go",
				"kbc":     "pkg/hook/controller/kubernetes_bindings_controller.go",
				"op":      "pkg/shell-operator/operator.go",
				"meh":     "pkg/shell-operator/manager_events_handler.go",
				"queue":   "pkg/task/queue/task_queue.go",
				"combine": "pkg/shell-operator/combine_binding_context.go",
				"sched":   "pkg/hook/controller/schedule_bindings_controller.go",
				"jq":      "pkg/filter/jq/",
			}[x])
		}
	}
	if wl.Choose(3) == 0 && e.Cfg["focus"] == "" {
		s.Policy = simrt.RandomWalk
		s.SwitchDen = []int{20, 100, 400}[wl.Choose(3)]
		s.FocusDen = []int{3, 8, 20}[wl.Choose(3)]
	} else {
		s.Policy = simrt.PCT
		d := wl.Choose(4)
		k := e.CfgInt("k", 3000)
		sch := e.S.T.St("sched")
		for i := 0; i < d; i++ {
			s.ChangePoints = append(s.ChangePoints, 1+sch.Choose(k))
		}
	}
	if opts.Slow04 && wl.Choose(2) == 0 {
		opts.Queues = false // all bindings in main: more adjacent tasks of one hook
	}
	sc := genScenario(e, opts)
	o := NewOpSim(e, sc.Hooks)
	obs := NewObserver(e)
	o.API.Obs = obs
	api := o.API
	r := &OpRun{e: e, o: o, sc: sc, obs: obs, opts: opts, monitors: map[string]string{}, faults: opts.Faults, failPlan: map[string]int{}, attempts: map[string]int{}}

	// ---- cluster history
	api.ApplyNamespace("default", nil)
	nsLabelled := map[string]bool{}
	if wl.Choose(2) == 0 {
		api.ApplyNamespace("nsa", map[string]string{"env": "prod"})
		nsLabelled["nsa"] = true
	} else {
		api.ApplyNamespace("nsa", nil)
	}
	nwrite := 0
	existingNS := func() []string {
		var out []string
		for _, n := range []string{"default", "nsa", "nsb"} {
			if api.Get(gvrNS, "", n) != nil {
				out = append(out, n)
			}
		}
		return out
	}
	write := func(st *simrtStream) {
		nss := existingNS()
		ns := nss[st.Choose(len(nss))]
		kind := []string{"Pod", "ConfigMap"}[st.Choose(2)]
		name := "o" + strconv.Itoa(st.Choose(3))
		nwrite++
		switch op := st.Choose(10); {
		case op >= 8:
			api.Delete(gvrOfKind(kind), ns, name)
		case op == 7:
			// change outside the projection of jq bindings
			data := map[string]any{"v": strconv.Itoa(nwrite), "x": strconv.Itoa(nwrite)}
			if cur := api.Get(gvrOfKind(kind), ns, name); cur != nil {
				if d, ok := cur.Object["data"].(map[string]any); ok {
					data["v"] = d["v"]
				}
			}
			api.Apply(gvrOfKind(kind), mkObj(kind, ns, name, nil, map[string]any{"data": data}))
		default:
			api.Apply(gvrOfKind(kind), mkObj(kind, ns, name, nil, map[string]any{"data": map[string]any{"v": strconv.Itoa(nwrite), "x": "0"}}))
		}
	}
	for i, n := 0, wl.Choose(5); i < n; i++ {
		write(wl)
	}

	// ---- scripted hook behaviour
	fl := e.FL
	o.Behave = func(x *Exec) {
		if opts.Slow {
			x.Dur = []time.Duration{0, 50 * time.Millisecond, 300 * time.Millisecond, 2 * time.Second, 8 * time.Second}[wl.Choose(5)]
		} else if opts.Slow04 {
			x.Dur = time.Duration(1+wl.Choose(5)) * 200 * time.Millisecond
		} else {
			x.Dur = time.Duration(wl.Choose(4)) * 100 * time.Millisecond
		}
		if opts.Patches && len(x.Ctxs) > 0 && fl.Choose(12) == 0 {
			// exit 0 with a valid patch; for half of them the API server rejects the write: the outputs
			// cannot be applied, which is a failed run like any other
			x.PatchObj = "px-" + strconv.Itoa(x.N)
			x.Patch = fmt.Sprintf(`{"operation":"CreateOrUpdate","object":{"apiVersion":"v1","kind":"Secret","metadata":{"name":%q,"namespace":"default"},"data":{}}}`, x.PatchObj)
			if fl.Choose(2) == 0 {
				api.mu.Lock()
				api.FailWriteName[x.PatchObj]++
				api.mu.Unlock()
			}
		}
		if opts.FailPct > 0 && len(x.Ctxs) > 0 {
			key := x.Hook + "|" + ctxIdentity(x.Ctxs[0])
			if _, ok := r.failPlan[key]; !ok {
				k := 0
				if fl.Choose(100) < opts.FailPct {
					k = 1 + fl.Choose(2)
				}
				isStartup := x.Ctxs[0].Binding == "onStartup"
				if isStartup && !opts.StartupFail {
					k = 0
				}
				r.failPlan[key] = k
			}
			if r.attempts[key] < r.failPlan[key] {
				x.Fail = true
				simrt.Count("fault:hook-failed")
			}
			r.attempts[key]++
		}
	}

	nsRemoval := e.CfgIs("nsdel", "1")
	if e.CfgIs("slowlist", "1") {
		api.WrapDynamic(o.fc.Client)
		// one list of the operator takes 3-8 s: shorter than the wait time-out of the shutdown sequence, whose two
		// tickers fire at the same instant when it runs out (an order the simulator does not decide)
		api.SlowList[[]string{"pods", "configmaps"}[fl.Choose(2)]] = 1
		api.SlowListDur = time.Duration(3000+fl.Choose(5000)) * time.Millisecond
	}
	stopDuringStart := e.CfgIs("stopduring", "start")
	mutDone, settled, settling := false, false, false
	shutdownReturned, shutdownCalled, shutdownHung := false, false, false
	var shutdownCalledAt, shutdownReturnedAt time.Duration
	simrt.GoNamed("boot", func() {
		startMut := func() {
			simrt.GoNamed("mutator", func() {
				n := opts.Writes/2 + wl.Choose(opts.Writes+1)
				for i := 0; i < n; i++ {
					simrt.Yield("mut")
					if wl.Bias(1, 3) {
						simrt.Sleep(time.Duration(1+wl.Choose(6)) * 150 * time.Millisecond)
					}
					if opts.FailPct > 0 && wl.Bias(1, 6) {
						// outlast a back-off: some changes happen after a failed execution has been retried
						simrt.Sleep(time.Duration(4+wl.Choose(8)) * time.Second)
					}
					if nsRemoval && wl.Bias(1, 8) {
						// a namespace stops matching (label removed) or goes away with everything in it,
						// and may come back later
						n := []string{"nsa", "nsb"}[wl.Choose(2)]
						switch {
						case api.Get(gvrNS, "", n) == nil:
							api.ApplyNamespace(n, map[string]string{"env": "prod"})
							nsLabelled[n] = true
							simrt.Count("probe:namespace-added-after-start")
						case wl.Choose(2) == 0:
							api.DeleteNamespace(n)
							nsLabelled[n] = false
							simrt.Count("probe:namespace-deleted")
						case nsLabelled[n]:
							api.ApplyNamespace(n, nil)
							nsLabelled[n] = false
							simrt.Count("probe:namespace-unlabelled")
						default:
							api.ApplyNamespace(n, map[string]string{"env": "prod"})
							nsLabelled[n] = true
							simrt.Count("probe:namespace-labelled-after-start")
						}
						continue
					}
					if opts.NsDynamic && wl.Bias(1, 12) {
						if api.Get(gvrNS, "", "nsb") == nil {
							api.ApplyNamespace("nsb", map[string]string{"env": "prod"})
							nsLabelled["nsb"] = true
							simrt.Count("probe:namespace-added-after-start")
						} else if !nsLabelled["nsa"] {
							api.ApplyNamespace("nsa", map[string]string{"env": "prod"})
							nsLabelled["nsa"] = true
							simrt.Count("probe:namespace-labelled-after-start")
						}
						continue
					}
					write(wl)
				}
				mutDone = true
			})
		}
		var startStopper func()
		startStopper = func() {
			k := fl.Choose(e.CfgInt("stopk", 2500))
			stopAtWait := e.CfgIs("stopat", "wait")
			simrt.GoNamed("stopper", func() {
				if stopAtWait {
					// fault placement biased to the end of a wait: shortly before the back-off after a
					// failed execution elapses, or shortly after a task arrived (idle queues poll)
					nth, useArrival := fl.Choose(3), fl.Choose(3) == 0
					off := time.Duration(fl.Choose(700)) * time.Millisecond
					base := len(o.Arrivals)
					var trigger *Exec
					simrt.BlockUntil("stop-trigger", func() bool {
						if s.Steps >= 5000 {
							return true
						}
						if useArrival {
							return len(o.Arrivals) > base+nth
						}
						n := 0
						for _, x := range o.Execs {
							if x.Fail && x.EndSeq != 0 {
								if n == nth {
									trigger = x
									return true
								}
								n++
							}
						}
						return false
					})
					if useArrival {
						simrt.Sleep(off / 2)
						simrt.Count("probe:stop-placed-after-arrival")
					} else if trigger != nil {
						d := queue.DefaultInitialDelayOnFailedTask - 500*time.Millisecond + off - (e.Since() - trigger.End)
						if d > 0 {
							simrt.Sleep(d)
						}
						simrt.Count("probe:stop-placed-near-end-of-back-off")
					}
				} else {
					simrt.BlockUntil("stop-point", func() bool { return s.Steps >= k && o.Op != nil })
				}
				simrt.Count("fault:shutdown-requested")
				if !o.Booted {
					simrt.Count("probe:stop-during-start-up")
				}
				shutdownCalledAt = e.Since()
				shutdownCalled = true
				o.Op.Shutdown()
				shutdownReturnedAt = e.Since()
				shutdownReturned = true
			})
		}
		if opts.Shutdown && stopDuringStart {
			// the stop request may arrive while ShellOperator.Start() is still creating queues and enabling hooks
			startStopper()
		}
		early := wl.Bias(1, 2)
		if early {
			startMut() // history runs during start-up too
		}
		o.Boot(true)
		r.bootSeq = e.Seq()
		s.Arm()
		if o.BootErr != nil {
			mutDone = true
			return
		}
		if !early {
			startMut()
		}
		if opts.Shutdown && !stopDuringStart {
			startStopper()
		}
		if opts.Faults {
			simrt.GoNamed("faulter", func() {
				n := 1 + fl.Choose(3)
				for i := 0; i < n; i++ {
					simrt.Yield("flt")
					simrt.Sleep(time.Duration(1+fl.Choose(20)) * 100 * time.Millisecond)
					switch fl.Choose(4) {
					case 0:
						api.mu.Lock()
						api.FailList[[]string{"pods", "configmaps"}[fl.Choose(2)]] += 1
						api.mu.Unlock()
					default:
						api.CloseWatch(fl.Choose(6), fl.Choose(3) == 0)
					}
				}
			})
		}
	})
	err := s.Run(func() bool {
		if len(s.Panics) > 0 {
			return true
		}
		if !o.Booted {
			return false
		}
		if o.BootErr != nil {
			return true
		}
		if opts.Shutdown {
			// the run lasts until Shutdown() has returned, every execution in flight has ended and the
			// workers had their time to notice; events and ticks keep arriving meanwhile
			if shutdownCalled && !shutdownReturned && e.Since()-shutdownCalledAt > 3*time.Minute {
				shutdownHung = true // three simulated minutes: far beyond the wait time-out of the shutdown sequence
				return true
			}
			if !(shutdownReturned && mutDone && o.inFlight == 0) {
				return false
			}
		} else if !(mutDone && o.Quiet()) {
			return false
		}
		if !settling {
			settling = true
			simrt.GoNamed("settle", func() {
				d := 8 * time.Second
				if opts.Faults {
					d = 100 * time.Second
				}
				simrt.Sleep(d)
				settled = true
			})
			return false
		}
		return settled
	})
	r.endSeq = e.Seq()
	r.quiet = err == nil
	if err != nil {
		e.Out.Truncated = true
	}
	if o.BootErr != nil {
		e.Out.Infra = "operator assembly failed: " + o.BootErr.Error()
	}
	panicsToViolations(e, prop)
	lockStarvation(e, prop)
	e.Out.NonTrivial = s.Preempts > 0 || opts.Faults || len(o.Execs) > 2
	for _, x := range o.Execs {
		if x.PatchObj != "" && !x.Fail && api.FaultedNames[x.PatchObj] > 0 {
			x.Fail = true // its patch could not be applied
			simrt.Count("fault:patch-apply-failed")
		}
	}
	if o.Op != nil && o.BootErr == nil && len(s.Panics) == 0 {
		r.indexMonitors()
		oracleC09(r)
		oracleC03(r)
		oracleC04(r)
		oracleC07op(r)
		oracleC07sync(r)
		oracleC07adjacent(r)
		oracleC06(r)
		oracleC02(r)
		oracleC01(r)
		oracleC11(r)
		oracleC18(r)
		if opts.Shutdown && shutdownReturned && err == nil {
			oracleC17(r, shutdownCalledAt, shutdownReturnedAt)
		}
		if shutdownHung {
			st := ""
			for _, qn := range o.queueNames() {
				if q := o.Op.TaskQueues.GetByName(qn); q != nil {
					st += fmt.Sprintf(" %s=%q", qn, q.GetStatus())
				}
			}
			nAfter := 0
			for _, x := range o.Execs {
				if x.Start > shutdownCalledAt {
					nAfter++
				}
			}
			e.Viol("C17", "H4", "shutdown-did-not-return", "Shutdown() was called at %v and had not returned %v later; %d executions started meanwhile; queue status:%s", shutdownCalledAt, e.Since()-shutdownCalledAt, nAfter, st)
		}
	}
	restarted := false
	if e.CfgIs("restart", "1") && r.quiet && o.BootErr == nil && len(s.Panics) == 0 && len(e.Out.Viol) == 0 {
		// crash and restart: the first instance is stopped, a NEW operator instance is assembled against
		// the same API-server state (the cluster is the only durable state shell-operator has)
		restarted = true
		simrt.Count("fault:crash-restart")
		phase1 := len(o.Execs)
		arr1 := len(o.Arrivals)
		down, up, mut2 := false, false, false
		simrt.GoNamed("restart", func() {
			if wl.Choose(2) == 0 {
				o.Op.Shutdown()
			}
			o.Op.Stop()
			o.cancel()
			simrt.Sleep(2 * time.Second)
			down = true
			// the cluster keeps changing while the operator is down
			for i, n := 0, wl.Choose(4); i < n; i++ {
				write(wl)
			}
			o.ctx, o.cancel = context.WithCancel(context.Background())
			o.Booted = false
			o.Boot(true)
			r.bootSeq = e.Seq()
			up = true
			for i, n := 0, wl.Choose(5); i < n; i++ {
				simrt.Sleep(time.Duration(1+wl.Choose(6)) * 150 * time.Millisecond)
				write(wl)
			}
			simrt.Sleep(8 * time.Second)
			mut2 = true
		})
		err2 := s.Run(func() bool {
			return len(s.Panics) > 0 || (down && up && (o.BootErr != nil || (mut2 && o.Quiet())))
		})
		panicsToViolations(e, prop)
		if err2 == nil && o.BootErr == nil && len(s.Panics) == 0 {
			// the oracles see the second instance only
			all, allArr := o.Execs, o.Arrivals
			o.Execs, o.Arrivals = all[phase1:], allArr[arr1:]
			r2 := &OpRun{e: e, o: o, sc: sc, obs: obs, opts: opts, monitors: map[string]string{}, faults: false, quiet: true, failPlan: r.failPlan, attempts: r.attempts}
			r2.indexMonitors()
			oracleC09(r2)
			oracleC06(r2)
			oracleC02(r2)
			oracleC01(r2)
			o.Execs, o.Arrivals = all, allArr
		} else if err2 != nil {
			e.Out.Truncated = true
		}
	}
	if e.Detail {
		var cfgs []map[string]string
		for _, h := range sc.Hooks {
			cfgs = append(cfgs, map[string]string{"hook": h.Path, "config": h.ConfigJSON()})
		}
		e.Out.Sample = map[string]any{"hooks": cfgs, "writes": o.DescribeWrites(80), "executions": o.DescribeExecs(80), "faults": opts.Faults, "restarted": restarted}
	}
	o.Teardown()
}

type simrtStream = simrt.Stream

func ctxIdentity(c Ctx) string {
	id := c.Binding + "/" + c.Type + "/" + c.WatchEvent
	if c.Obj != nil {
		id += fmt.Sprintf("/%s@%d/%s", c.Obj.Key(), c.Obj.RV, c.Obj.Filter)
	}
	return id
}

func (r *OpRun) indexMonitors() {
	for _, h := range r.sc.Hooks {
		hk := r.o.Op.HookManager.GetHook(h.Path)
		if hk == nil {
			continue
		}
		for _, kb := range hk.GetConfig().OnKubernetesEvents {
			r.monitors[kb.Monitor.Metadata.MonitorId] = h.Path + "|" + kb.BindingName
		}
	}
}

// monitorOf returns the monitor id of a binding.
func (r *OpRun) monitorOf(hook, binding string) string {
	for id, hb := range r.monitors {
		if hb == hook+"|"+binding {
			return id
		}
	}
	return ""
}

// queueOf: the queue an execution belongs to, derived from the bindings of its contexts
// ("" when the contexts disagree).
func (r *OpRun) queueOf(x *Exec) string {
	q := ""
	for i, c := range x.Ctxs {
		cq := r.ctxQueue(x.Hook, c)
		if i == 0 {
			q = cq
		} else if cq != q {
			return ""
		}
	}
	return q
}

func (r *OpRun) ctxQueue(hook string, c Ctx) string {
	if c.Binding == "onStartup" && c.Type == "" {
		return "main"
	}
	if c.Type == "Synchronization" {
		return "main"
	}
	if c.Type == "Group" {
		// a Group context of a kubernetes binding stands either for its Synchronization (queue main)
		// or for an event (the binding's queue); the JSON does not say which
		if b := r.sc.bind(hook, c.Binding); b != nil && b.Kube != nil && b.Kube.effQueue() != "main" {
			return "?"
		}
	}
	b := r.sc.bind(hook, c.Binding)
	if b == nil {
		return "?"
	}
	if b.Kube != nil {
		return b.Kube.effQueue()
	}
	if b.Sched.Queue == "" {
		return "main"
	}
	return b.Sched.Queue
}
