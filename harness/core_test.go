package harness

// Core of the simulation harness: one run = one synctest bubble; worker modes
// (batch, replay, selftest); confirmation by replay; tape minimisation.

import (
	"encoding/json"
	"fmt"
	mathrand "math/rand"
	"os"
	"path/filepath"
	"runtime"
	"sort"
	"strconv"
	"strings"
	"testing"
	"testing/synctest"
	"time"

	uuid "github.com/gofrs/uuid/v5"
	"github.com/prometheus/client_golang/prometheus"

	simrt "verifsimrt"
)

type Violation struct {
	Prop   string `json:"prop"`
	Clause string `json:"clause"`
	Sig    string `json:"sig"`
	Detail string `json:"detail"`
}

func (v Violation) Class() string { return v.Prop + "/" + v.Clause + "/" + v.Sig }

type RunOut struct {
	WL            string              `json:"workload"`
	Cfg           string              `json:"cfg"`
	Seed          uint64              `json:"seed"`
	Tape          map[string][]uint32 `json:"tape,omitempty"`
	Digest        uint64              `json:"digest"`
	SchedHash     uint64              `json:"sched_hash"`
	Viol          []Violation         `json:"violations,omitempty"`
	Counters      map[string]int      `json:"counters,omitempty"`
	Steps         int                 `json:"steps"`
	Yields        int                 `json:"yields"`
	Preempts      int                 `json:"preempts"`
	FocusPreempts int                 `json:"focus_preempts"`
	FocusYields   int                 `json:"focus_yields"`
	SimNs         int64               `json:"sim_ns"`
	Truncated     bool                `json:"truncated,omitempty"`
	Infra         string              `json:"infra,omitempty"`
	Sample        any                 `json:"sample,omitempty"`
	Trace         []string            `json:"trace,omitempty"`
	Pairs         []string            `json:"-"`
	NonTrivial    bool                `json:"nontrivial"`
}

// Env is what a workload sees of one run.
type Env struct {
	T      *testing.T
	S      *simrt.Sim
	WL     *simrt.Stream // workload shape
	FL     *simrt.Stream // faults
	Seed   uint64
	Cfg    map[string]string
	Out    *RunOut
	Dir    string // scratch directory of the run (removed afterwards)
	Detail bool   // keep logs, traces, samples (replay / sample runs)
	T0     time.Time
	seq    int64
	frozen *frozenRun
}

// frozenRun: what is reported about a run is fixed when the verdict is reached; the teardown
// that follows (cancelling contexts, closing watches) is scheduled too but is not part of the
// event log that the determinism digest covers.
type frozenRun struct {
	digest, schedHash                                   uint64
	steps, yields, preempts, focusPreempts, focusYields int
	simNs                                               int64
	counters                                            map[string]int
	pairs                                               []string
	unknown                                             int
}

func (e *Env) Freeze() {
	if e.frozen != nil {
		return
	}
	s := e.S
	f := &frozenRun{digest: s.Digest(), schedHash: s.SchedHash(), steps: s.Steps, yields: s.Yields, preempts: s.Preempts, focusPreempts: s.FocusPreempt,
		focusYields: s.FocusYields(), simNs: int64(time.Since(e.T0)), counters: map[string]int{}, unknown: s.Unknown}
	for k, v := range s.Counters {
		f.counters[k] = v
	}
	for k := range s.Pairs {
		f.pairs = append(f.pairs, k)
	}
	e.frozen = f
}

// Seq is the simulator's global event sequence number.
func (e *Env) Seq() int64 { e.seq++; return e.seq }

func (e *Env) Viol(prop, clause, sig, format string, args ...any) {
	e.Out.Viol = append(e.Out.Viol, Violation{prop, clause, sig, fmt.Sprintf(format, args...)})
}

func (e *Env) CfgIs(k, v string) bool { return e.Cfg[k] == v }
func (e *Env) CfgInt(k string, def int) int {
	if v, ok := e.Cfg[k]; ok {
		n, err := strconv.Atoi(v)
		if err == nil {
			return n
		}
	}
	return def
}

// Since returns simulated time since the start of the run.
func (e *Env) Since() time.Duration { return time.Since(e.T0) }

type Workload struct {
	Name string
	Run  func(e *Env)
}

var workloads = map[string]*Workload{}

func register(w *Workload) { workloads[w.Name] = w }

func parseCfg(s string) map[string]string {
	m := map[string]string{}
	for _, kv := range strings.Split(s, ",") {
		if kv == "" {
			continue
		}
		if i := strings.IndexByte(kv, '='); i >= 0 {
			m[kv[:i]] = kv[i+1:]
		} else {
			m[kv] = "1"
		}
	}
	return m
}

type detReader struct{ state uint64 }

func (d *detReader) Read(p []byte) (int, error) {
	for i := range p {
		d.state = d.state*6364136223846793005 + 1442695040888963407
		p[i] = byte(d.state >> 33)
	}
	return len(p), nil
}

var scratchRoot = func() string {
	d := os.Getenv("VERIF_SCRATCH")
	if d == "" {
		d = os.TempDir()
	}
	return d
}()

var runCounter int

// runOne executes one simulated run. replay == nil: generate from seed.
func runOne(t *testing.T, wl *Workload, cfg string, seed uint64, replay map[string][]uint32, detail bool) (out RunOut) {
	out = RunOut{WL: wl.Name, Cfg: cfg, Seed: seed}
	runCounter++
	dir := filepath.Join(scratchRoot, fmt.Sprintf("vr-%d-%d", os.Getpid(), runCounter))
	os.MkdirAll(dir, 0o755)
	defer os.RemoveAll(dir)
	finished := false
	var cur *simrt.Sim
	func() {
		defer func() {
			simrt.S = nil
			if r := recover(); r != nil {
				msg := fmt.Sprint(r)
				if finished && (strings.Contains(msg, "blocked goroutines remain") || strings.Contains(msg, "all goroutines in bubble are blocked")) {
					return // abandoned goroutines at the end of a bubble (endless tickers, blocked cron senders)
				}
				buf := make([]byte, 1<<21)
				n := runtime.Stack(buf, os.Getenv("VERIF_ALLSTACKS") != "")
				out.Infra = "panic outside tasks: " + msg + "\n" + string(buf[:n])
				if cur != nil && strings.Contains(msg, "all goroutines in bubble are blocked") && len(cur.LockWaitSites()) > 0 {
					// every goroutine is blocked and some wait on (simulated) locks: a deadlock of the system under test
					out.Infra = ""
					out.Viol = append(out.Viol, deadlockViolation(parseCfg(cfg)["prop"], wl.Name, cur.LockWaitSites(), cur.LockWaiters()))
					out.Tape = cur.T.Recorded()
					out.Digest = cur.Digest()
					out.NonTrivial = true
					return
				}
				if cur != nil {
					out.Infra += "\nparked: " + strings.Join(cur.ParkedSites(), "; ")
					if d := os.Getenv("VERIF_DUMP"); d != "" {
						os.WriteFile(d, []byte(strings.Join(cur.Events, "\n")+"\n"), 0o644)
					}
				}
			}
		}()
		synctest.Test(t, func(t *testing.T) {
			prometheus.DefaultRegisterer = prometheus.NewRegistry()
			mathrand.Seed(int64(seed))
			uuid.DefaultGenerator = uuid.NewGenWithOptions(uuid.WithRandomReader(&detReader{state: seed ^ 0xabcdef}))
			var tp *simrt.Tape
			if replay != nil {
				tp = simrt.ReplayTape(seed, replay)
			} else {
				tp = simrt.NewTape(seed)
			}
			s := simrt.New(tp)
			cur = s
			s.KeepLog = detail
			s.TraceYields = detail && os.Getenv("VERIF_TRACE_YIELDS") != ""
			e := &Env{T: t, S: s, WL: tp.St("workload"), FL: tp.St("faults"), Seed: seed, Cfg: parseCfg(cfg), Out: &out, Dir: dir, Detail: detail, T0: time.Now()}
			simrt.S = s
			func() {
				defer func() {
					if r := recover(); r != nil {
						buf := make([]byte, 1<<14)
						n := runtime.Stack(buf, false)
						out.Infra = fmt.Sprintf("harness panic on the root goroutine: %v\n%s", r, buf[:n])
					}
				}()
				wl.Run(e)
			}()
			finished = true
			e.Freeze()
			f := e.frozen
			out.Tape = tp.Recorded()
			out.Digest = f.digest
			out.SchedHash = f.schedHash
			out.Steps, out.Yields, out.Preempts, out.FocusPreempts, out.FocusYields = f.steps, f.yields, f.preempts, f.focusPreempts, f.focusYields
			out.SimNs = f.simNs
			if out.Counters == nil {
				out.Counters = map[string]int{}
			}
			for k, v := range f.counters {
				out.Counters[k] += v
			}
			if f.unknown > 0 {
				out.Counters["infra:unregistered-goroutine"] += f.unknown
			}
			out.Pairs = f.pairs
			if detail {
				for _, ev := range s.Events {
					if strings.HasPrefix(ev, "run ") {
						out.Trace = append(out.Trace, ev[4:])
					}
				}
				if d := os.Getenv("VERIF_DUMP"); d != "" {
					os.WriteFile(d, []byte(strings.Join(s.Events, "\n")+"\n"), 0o644)
				}
			}
		})
	}()
	return
}

var defaultProp = map[string]string{"queue": "C05", "monitor": "C01", "opsim": "C03", "queueset": "C03"}

func deadlockViolation(prop, wlName string, sites, waiters []string) Violation {
	if prop == "" {
		prop = defaultProp[wlName]
	}
	var files []string
	for _, s := range sites {
		f := s
		if i := strings.LastIndex(f, "/"); i >= 0 {
			f = f[i+1:]
		}
		if i := strings.Index(f, ":"); i >= 0 {
			f = f[:i]
		}
		dup := false
		for _, x := range files {
			if x == f {
				dup = true
			}
		}
		if !dup {
			files = append(files, f)
		}
	}
	return Violation{Prop: prop, Clause: "DEADLOCK", Sig: strings.Join(files, "+"), Detail: "simulated deadlock, tasks waiting on locks for ever: " + strings.Join(waiters, "; ")}
}

// lockStarvation reports tasks that have been waiting on a simulated lock for a long simulated time
// (a deadlock that the bubble does not notice because unrelated timers keep firing).
func lockStarvation(e *Env, prop string) {
	if sites := e.S.LockBlocked(60 * time.Second); len(sites) > 0 {
		e.Out.Viol = append(e.Out.Viol, deadlockViolation(prop, "", sites, e.S.LockWaiters()))
	}
}

// teardown runs f as a scheduled task and keeps the scheduler going until it is done.
func teardown(e *Env, f func()) {
	e.Freeze()
	done := false
	simrt.GoNamed("zz-teardown", func() {
		f()
		simrt.Sleep(3 * time.Second)
		done = true
	})
	_ = e.S.Run(func() bool { return done })
}

// panicsToViolations turns panics recorded inside the system under test into violations.
func panicsToViolations(e *Env, prop string) {
	for _, p := range e.S.Panics {
		fn := "?"
		first := strings.SplitN(p, "\n", 2)[0]
		lines := strings.Split(p, "\n")
		harnessFirst := false
		for _, ln := range lines {
			if fn == "?" && (strings.HasPrefix(ln, "harness.") || strings.Contains(ln, "/verif/harness/")) {
				// a frame of the harness lies between the panic and the code under test: the harness panicked
				harnessFirst = true
				break
			}
			if strings.Contains(ln, "github.com/flant/shell-operator/pkg/") && !strings.Contains(ln, "zz_verif") {
				fn = strings.TrimSpace(ln)
				if i := strings.Index(fn, "(0x"); i > 0 {
					fn = fn[:i]
				} else if i := strings.LastIndex(fn, "("); i > 0 {
					fn = fn[:i]
				}
				fn = strings.TrimPrefix(fn, "github.com/flant/shell-operator/pkg/")
				break
			}
		}
		if harnessFirst || (fn == "?" && (strings.Contains(p, "harness.") || strings.Contains(p, "harness_test"))) {
			e.Out.Infra = "harness panic: " + p
			continue
		}
		stack := p
		if len(stack) > 1800 {
			stack = stack[:1800]
		}
		e.Viol(prop, "PANIC", fn, "%s | %s", first, strings.ReplaceAll(stack, "\n", " / "))
	}
}

// ---------------------------------------------------------------- shrink

func cloneTape(t map[string][]uint32) map[string][]uint32 {
	c := map[string][]uint32{}
	for k, v := range t {
		c[k] = append([]uint32(nil), v...)
	}
	return c
}

func hasClass(v []Violation, cls string) bool {
	for _, x := range v {
		if x.Class() == cls {
			return true
		}
	}
	return false
}

// shrink minimises the tape while the same violation class persists.
func shrink(t *testing.T, wl *Workload, cfg string, seed uint64, tape map[string][]uint32, cls string, budget int, deadline time.Time) (map[string][]uint32, int) {
	cur := cloneTape(tape)
	tries := 0
	keep := func(c map[string][]uint32) bool {
		if tries >= budget || time.Now().After(deadline) {
			return false
		}
		tries++
		r := runOne(t, wl, cfg, seed, c, false)
		return r.Infra == "" && hasClass(r.Viol, cls)
	}
	names := []string{"workload", "faults", "sched", "rand", "iter"}
	for n := range cur {
		found := false
		for _, m := range names {
			if m == n {
				found = true
			}
		}
		if !found {
			names = append(names, n)
		}
	}
	for pass := 0; pass < 2; pass++ {
		for _, name := range names {
			vals := cur[name]
			if len(vals) == 0 {
				continue
			}
			// 1. drop the whole stream / truncate the tail (an exhausted tape yields 0)
			for cut := len(vals); cut >= 1; cut /= 2 {
				for len(vals) >= cut {
					c := cloneTape(cur)
					c[name] = vals[:len(vals)-cut]
					if keep(c) {
						vals = c[name]
						cur = c
					} else {
						break
					}
				}
			}
			// 2. zero chunks (keeps the alignment of everything behind them)
			for chunk := len(vals) / 2; chunk >= 2; chunk /= 2 {
				for i := 0; i+chunk <= len(vals); i += chunk {
					nz := false
					for _, v := range vals[i : i+chunk] {
						if v != 0 {
							nz = true
						}
					}
					if !nz {
						continue
					}
					c := cloneTape(cur)
					for j := i; j < i+chunk; j++ {
						c[name][j] = 0
					}
					if keep(c) {
						cur = c
						vals = cur[name]
					}
				}
			}
			// 3. delete chunks
			for chunk := len(vals) / 2; chunk >= 1; chunk /= 2 {
				for i := 0; i+chunk <= len(vals); {
					c := cloneTape(cur)
					c[name] = append(append([]uint32(nil), vals[:i]...), vals[i+chunk:]...)
					if keep(c) {
						vals = c[name]
						cur = c
					} else {
						i += chunk
					}
				}
				if len(vals) > 64 && chunk < len(vals)/16 {
					break
				}
			}
			// 4. zero, then halve single entries
			for i := range vals {
				if vals[i] != 0 {
					c := cloneTape(cur)
					c[name][i] = 0
					if keep(c) {
						cur = c
						vals = cur[name]
						continue
					}
					if vals[i] > 1 {
						c = cloneTape(cur)
						c[name][i] = vals[i] / 2
						if keep(c) {
							cur = c
							vals = cur[name]
						}
					}
				}
			}
		}
	}
	return cur, tries
}

// ---------------------------------------------------------------- replay files

type ReplayFile struct {
	Property  string              `json:"property"`
	Class     string              `json:"class"`
	Workload  string              `json:"workload"`
	Cfg       string              `json:"cfg"`
	Seed      uint64              `json:"seed"`
	Tape      map[string][]uint32 `json:"tape"`
	Violation Violation           `json:"violation"`
	Digest    uint64              `json:"digest"`
	Original  map[string]int      `json:"original_tape_lengths"`
	Shrunk    map[string]int      `json:"shrunk_tape_lengths"`
	Tries     int                 `json:"shrink_candidates_run"`
	Decoded   any                 `json:"decoded,omitempty"`
	Trace     []string            `json:"context_switches,omitempty"`
	Counters  map[string]int      `json:"counters,omitempty"`
}

func lens(t map[string][]uint32) map[string]int {
	m := map[string]int{}
	for k, v := range t {
		m[k] = len(v)
	}
	return m
}

// ---------------------------------------------------------------- plan

// Part is one (workload, configuration) share of a property's check.
type Part struct {
	WL    string
	Cfg   string
	Quick int // runs per worker, quick tier
	Thor  int // runs per worker, thorough tier
}

var plans = map[string][]Part{}

// ---------------------------------------------------------------- worker

type classInfo struct {
	Class   string    `json:"class"`
	Count   int       `json:"count"`
	Seeds   []uint64  `json:"seeds"`
	Replay  string    `json:"replay,omitempty"`
	First   Violation `json:"first"`
	WL      string    `json:"workload"`
	Cfg     string    `json:"cfg"`
	Confirm string    `json:"confirm"` // "reproduced" | "NOT-REPRODUCED"
}

type partSummary struct {
	WL        string         `json:"workload"`
	Cfg       string         `json:"cfg"`
	Runs      int            `json:"runs"`
	Truncated int            `json:"truncated"`
	Steps     int64          `json:"steps"`
	Yields    int64          `json:"yields"`
	Preempts  int64          `json:"preempts"`
	FocusPre  int64          `json:"focus_preempts"`
	FocusY    int64          `json:"focus_yields"`
	SimNs     int64          `json:"sim_ns"`
	WallS     float64        `json:"wall_s"`
	Counters  map[string]int `json:"counters"`
	Cut       bool           `json:"cut_by_time_budget"`
}

type workerSummary struct {
	Prop      string                `json:"prop"`
	Worker    int                   `json:"worker"`
	Seed0     uint64                `json:"seed0"`
	Parts     []*partSummary        `json:"parts"`
	Classes   map[string]*classInfo `json:"classes"`
	Infra     []string              `json:"infra"`
	Hashes    []string              `json:"nontrivial_sched_hashes"`
	Pairs     []string              `json:"switch_pairs"`
	Samples   []any                 `json:"samples"`
	NonDeterm []string              `json:"nondeterministic"`
}

func envInt(k string, def int) int {
	if v := os.Getenv(k); v != "" {
		if n, err := strconv.Atoi(v); err == nil {
			return n
		}
	}
	return def
}

func TestWorker(t *testing.T) {
	prop := os.Getenv("VERIF_PROP")
	if prop == "" {
		t.Skip("VERIF_PROP not set")
	}
	outDir := os.Getenv("VERIF_OUT")
	worker := envInt("VERIF_WORKER", 0)
	nworkers := envInt("VERIF_NWORKERS", 1)
	tier := os.Getenv("VERIF_TIER")
	baseSeed := uint64(envInt("VERIF_SEED", 1))
	budget := time.Duration(envInt("VERIF_BUDGET_S", 90)) * time.Second
	scale := envInt("VERIF_SCALE_PCT", 100)
	startWatchdog(budget*3 + 5*time.Minute)
	plan, ok := plans[prop]
	if !ok {
		fmt.Printf("INFRA no plan for %s\n", prop)
		os.Exit(2)
	}
	if f := os.Getenv("VERIF_ONLY_WL"); f != "" {
		var p2 []Part
		for _, p := range plan {
			if p.WL == f {
				p2 = append(p2, p)
			}
		}
		plan = p2
	}
	sum := &workerSummary{Prop: prop, Worker: worker, Classes: map[string]*classInfo{}}
	hashes := map[uint64]bool{}
	pairs := map[string]bool{}
	start := time.Now()
	total := 0
	for _, p := range plan {
		if tier == "thorough" {
			total += p.Thor
		} else {
			total += p.Quick
		}
	}
	if os.Getenv("VERIF_PLAN") != "" {
		// print the plan (runs per worker and part) for the driver's chunking
		type pp struct {
			WL, Cfg string
			N       int
		}
		var out []pp
		for _, p := range plan {
			n := p.Quick
			if tier == "thorough" {
				n = p.Thor
			}
			n = n * scale / 100
			if n < 1 {
				n = 1
			}
			out = append(out, pp{p.WL, p.Cfg, n})
		}
		b, _ := json.Marshal(out)
		fmt.Println("PLAN " + string(b))
		return
	}
	onlyPart := envInt("VERIF_PART", -1)
	for pi, p := range plan {
		if onlyPart >= 0 && pi != onlyPart {
			continue
		}
		wl := workloads[p.WL]
		if wl == nil {
			fmt.Printf("INFRA unknown workload %s\n", p.WL)
			os.Exit(2)
		}
		n := p.Quick
		if tier == "thorough" {
			n = p.Thor
		}
		n = n * scale / 100
		if n < 1 {
			n = 1
		}
		// each part gets a share of the wall budget proportional to nothing fancy: equal shares
		partDeadline := start.Add(budget * time.Duration(pi+1) / time.Duration(len(plan)))
		if onlyPart >= 0 {
			partDeadline = start.Add(budget)
		}
		ps := &partSummary{WL: p.WL, Cfg: p.Cfg, Counters: map[string]int{}}
		sum.Parts = append(sum.Parts, ps)
		pstart := time.Now()
		// disjoint seed blocks: base seed, part, worker
		seed0 := baseSeed*1_000_000_007 + uint64(pi)*10_000_019 + uint64(worker)*uint64(n)
		if onlyPart >= 0 {
			// chunk mode: the driver hands out offsets into the part's seed block
			seed0 = baseSeed*1_000_000_007 + uint64(pi)*10_000_019 + uint64(envInt("VERIF_OFF", 0))
			n = envInt("VERIF_CNT", n)
		}
		if pi == 0 || onlyPart >= 0 {
			sum.Seed0 = seed0
		}
		for i := 0; i < n; i++ {
			if time.Now().After(partDeadline) {
				ps.Cut = true
				break
			}
			seed := seed0 + uint64(i)
			wantSample := (worker == 0 || envInt("VERIF_OFF", -1) == 0) && i < 2
			if os.Getenv("VERIF_TRACE") != "" {
				fmt.Fprintf(os.Stderr, "run %s %s %d\n", p.WL, p.Cfg, seed)
			}
			r := runOne(t, wl, p.Cfg, seed, nil, wantSample)
			ps.Runs++
			ps.Steps += int64(r.Steps)
			ps.Yields += int64(r.Yields)
			ps.Preempts += int64(r.Preempts)
			ps.FocusPre += int64(r.FocusPreempts)
			ps.FocusY += int64(r.FocusYields)
			ps.SimNs += r.SimNs
			if r.Truncated {
				ps.Truncated++
			}
			for k, v := range r.Counters {
				ps.Counters[k] += v
			}
			if r.Infra != "" {
				sum.Infra = append(sum.Infra, fmt.Sprintf("%s seed %d: %s", p.WL, seed, r.Infra))
				if len(sum.Infra) > 5 {
					break
				}
				continue
			}
			if r.NonTrivial {
				hashes[r.SchedHash^r.Digest] = true
			}
			if len(pairs) < 20000 {
				for _, k := range r.Pairs {
					pairs[k] = true
				}
			}
			if wantSample && r.Sample != nil && len(sum.Samples) < 4 {
				sum.Samples = append(sum.Samples, map[string]any{"workload": p.WL, "cfg": p.Cfg, "seed": seed, "case": r.Sample,
					"steps": r.Steps, "preemptions": r.Preempts, "counters": r.Counters})
			}
			seen := map[string]bool{}
			for _, v := range r.Viol {
				if v.Prop != prop {
					continue
				}
				cls := v.Class()
				if seen[cls] {
					continue
				}
				seen[cls] = true
				ci := sum.Classes[cls]
				if ci == nil {
					ci = &classInfo{Class: cls, First: v, WL: p.WL, Cfg: p.Cfg}
					sum.Classes[cls] = ci
					// confirm by replay, minimise, write the replay file
					ci.Replay, ci.Confirm = processViolation(t, wl, p.Cfg, seed, r, v, outDir, worker)
				}
				ci.Count++
				if len(ci.Seeds) < 8 {
					ci.Seeds = append(ci.Seeds, seed)
				}
			}
		}
		ps.WallS = time.Since(pstart).Seconds()
	}
	for h := range hashes {
		sum.Hashes = append(sum.Hashes, strconv.FormatUint(h, 16))
	}
	sort.Strings(sum.Hashes)
	for k := range pairs {
		sum.Pairs = append(sum.Pairs, k)
	}
	sort.Strings(sum.Pairs)
	_ = nworkers
	b, _ := json.Marshal(sum)
	if err := os.WriteFile(filepath.Join(outDir, fmt.Sprintf("worker-%d.json", worker)), b, 0o644); err != nil {
		fmt.Println("INFRA cannot write summary:", err)
		os.Exit(2)
	}
}

func processViolation(t *testing.T, wl *Workload, cfg string, seed uint64, r RunOut, v Violation, outDir string, worker int) (string, string) {
	cls := v.Class()
	// 1. confirm: replay from the recorded tape must give the same digest and class
	r2 := runOne(t, wl, cfg, seed, r.Tape, false)
	if r2.Digest != r.Digest || !hasClass(r2.Viol, cls) {
		return "", "NOT-REPRODUCED"
	}
	// 2. minimise
	budget := envInt("VERIF_SHRINK_BUDGET", 300)
	small, tries := shrink(t, wl, cfg, seed, r.Tape, cls, budget, time.Now().Add(20*time.Second))
	fin := runOne(t, wl, cfg, seed, small, true)
	if !hasClass(fin.Viol, cls) {
		small = r.Tape
		fin = runOne(t, wl, cfg, seed, small, true)
	}
	var vv Violation
	for _, x := range fin.Viol {
		if x.Class() == cls {
			vv = x
			break
		}
	}
	rf := ReplayFile{Property: v.Prop, Class: cls, Workload: wl.Name, Cfg: cfg, Seed: seed, Tape: small, Violation: vv, Digest: fin.Digest,
		Original: lens(r.Tape), Shrunk: lens(small), Tries: tries, Decoded: fin.Sample, Trace: fin.Trace, Counters: fin.Counters}
	if len(rf.Trace) > 400 {
		rf.Trace = append(rf.Trace[:200], append([]string{"…"}, rf.Trace[len(rf.Trace)-199:]...)...)
	}
	b, _ := json.MarshalIndent(rf, "", " ")
	name := fmt.Sprintf("%s-%s-%d-w%d.json", v.Prop, sanitize(v.Clause+"-"+v.Sig), seed, worker)
	path := filepath.Join(outDir, name)
	os.WriteFile(path, b, 0o644)
	return name, "reproduced"
}

func sanitize(s string) string {
	var b strings.Builder
	for _, c := range s {
		if (c >= 'a' && c <= 'z') || (c >= 'A' && c <= 'Z') || (c >= '0' && c <= '9') || c == '-' || c == '_' {
			b.WriteRune(c)
		} else {
			b.WriteRune('_')
		}
	}
	out := b.String()
	if len(out) > 60 {
		out = out[:60]
	}
	return out
}

// TestReplay re-executes a replay file in a fresh process.
func TestReplay(t *testing.T) {
	path := os.Getenv("VERIF_REPLAY")
	if path == "" {
		t.Skip("VERIF_REPLAY not set")
	}
	startWatchdog(10 * time.Minute)
	b, err := os.ReadFile(path)
	if err != nil {
		fmt.Println("INFRA", err)
		os.Exit(2)
	}
	var rf ReplayFile
	if err := json.Unmarshal(b, &rf); err != nil {
		fmt.Println("INFRA", err)
		os.Exit(2)
	}
	wl := workloads[rf.Workload]
	if wl == nil {
		fmt.Println("INFRA unknown workload", rf.Workload)
		os.Exit(2)
	}
	r := runOne(t, wl, rf.Cfg, rf.Seed, rf.Tape, true)
	if r.Infra != "" {
		fmt.Println("INFRA", r.Infra)
		os.Exit(2)
	}
	fmt.Printf("replay digest=%x recorded=%x same=%v\n", r.Digest, rf.Digest, r.Digest == rf.Digest)
	for _, v := range r.Viol {
		fmt.Printf("  violation %s: %s\n", v.Class(), v.Detail)
	}
	if os.Getenv("VERIF_SHOW") != "" {
		sb, _ := json.MarshalIndent(r.Sample, "", " ")
		fmt.Println(string(sb))
		for _, tr := range r.Trace {
			fmt.Println("   ", tr)
		}
	}
	if hasClass(r.Viol, rf.Class) {
		fmt.Printf("REPRODUCED class=%s\n", rf.Class)
	} else {
		fmt.Printf("NOT-REPRODUCED class=%s\n", rf.Class)
	}
}

// TestDeterminism: every (workload,cfg) of the plan, seeds × 2 in-process, digests printed for cross-process comparison.
func TestDeterminism(t *testing.T) {
	prop := os.Getenv("VERIF_DET_PROP")
	if prop == "" {
		t.Skip("VERIF_DET_PROP not set")
	}
	startWatchdog(30 * time.Minute)
	n := envInt("VERIF_DET_N", 50)
	twice := os.Getenv("VERIF_DET_TWICE") != ""
	bad := 0
	for pi, p := range plans[prop] {
		wl := workloads[p.WL]
		for i := 0; i < n; i++ {
			seed := uint64(7_000_000 + pi*100_000 + i)
			r := runOne(t, wl, p.Cfg, seed, nil, false)
			if r.Infra != "" {
				fmt.Printf("INFRA %s %s seed %d: %s\n", p.WL, p.Cfg, seed, r.Infra)
				bad++
				continue
			}
			fmt.Printf("D %s|%s|%d %x %d\n", p.WL, p.Cfg, seed, r.Digest, len(r.Viol))
			if twice {
				r2 := runOne(t, wl, p.Cfg, seed, nil, false)
				if r2.Digest != r.Digest {
					fmt.Printf("NONDET in-process %s %s seed %d\n", p.WL, p.Cfg, seed)
					bad++
				}
				r3 := runOne(t, wl, p.Cfg, seed, r.Tape, false)
				if r3.Digest != r.Digest {
					fmt.Printf("NONDET tape-replay %s %s seed %d\n", p.WL, p.Cfg, seed)
					bad++
				}
			}
		}
	}
	if bad > 0 {
		t.Fail()
	}
}

func startWatchdog(d time.Duration) {
	go func() {
		time.Sleep(d)
		buf := make([]byte, 1<<22)
		n := runtime.Stack(buf, true)
		os.Stderr.Write(buf[:n])
		if s := simrt.S; s != nil {
			fmt.Fprintln(os.Stderr, "parked:", s.ParkedSites())
			ev := s.Events
			if len(ev) > 80 {
				ev = ev[len(ev)-80:]
			}
			fmt.Fprintln(os.Stderr, strings.Join(ev, "\n"))
			fmt.Fprintln(os.Stderr, "steps", s.Steps, "yields", s.Yields)
		}
		fmt.Println("INFRA watchdog expired")
		os.Exit(2)
	}()
}

// TestOne runs a single seed with full detail (debugging aid).
func TestOne(t *testing.T) {
	name := os.Getenv("VERIF_WL")
	if name == "" {
		t.Skip()
	}
	startWatchdog(time.Duration(envInt("VERIF_WD_S", 30)) * time.Second)
	seed, _ := strconv.ParseUint(os.Getenv("VERIF_SEED1"), 10, 64)
	r := runOne(t, workloads[name], os.Getenv("VERIF_CFG"), seed, nil, true)
	if d := os.Getenv("VERIF_DUMP"); d != "" && os.Getenv("VERIF_TWICE") != "" {
		os.Rename(d, d+".1")
		r = runOne(t, workloads[name], os.Getenv("VERIF_CFG"), seed, nil, true)
	}
	r.Tape = nil
	b, _ := json.MarshalIndent(r, "", " ")
	fmt.Println(string(b))
}
