package harness

// Oracles over one whole-operator run (execution log written by the hook stub, API-server
// log, observed informer inputs). Each oracle states only what its property states.

import (
	"fmt"
	"sort"
	"strings"
	"time"

	shop "github.com/flant/shell-operator/pkg/shell-operator"

	"github.com/flant/shell-operator/pkg/task/queue"
	simrt "verifsimrt"
)

func (r *OpRun) hookSpec(path string) *HookSpec { return r.o.Hooks[path] }

// kube bindings of the hook that share the group g
func groupMembers(h *HookSpec, g string) []string {
	var out []string
	for _, b := range h.Kube {
		if b.Group == g && g != "" {
			out = append(out, b.Name)
		}
	}
	return out
}

// expected keys of `snapshots` for a binding: includeSnapshotsFrom plus kubernetes bindings of its group
func expectedSnapshotKeys(h *HookSpec, include []string, group string) []string {
	set := map[string]bool{}
	for _, n := range include {
		set[n] = true
	}
	for _, n := range groupMembers(h, group) {
		set[n] = true
	}
	return sortedKeys(set)
}

// ---------------------------------------------------------------- C09

func oracleC09(r *OpRun) {
	for _, x := range r.o.Execs {
		h := r.hookSpec(x.Hook)
		if h == nil {
			continue
		}
		if x.ParseErr != "" {
			r.e.Viol("C09", "B0", "not-a-json-array", "execution #%d of %s: binding context file is not a JSON array of objects: %s", x.N, x.Hook, x.ParseErr)
			continue
		}
		for i, c := range x.Ctxs {
			keys := sortedKeys(c.Raw)
			has := func(k string) bool { _, ok := c.Raw[k]; return ok }
			bad := func(clause, sig, f string, a ...any) {
				r.e.Viol("C09", clause, sig, "execution #%d of %s, context %d (%s): %s", x.N, x.Hook, i, c.String(), fmt.Sprintf(f, a...))
			}
			if _, ok := c.Raw["binding"].(string); !ok {
				bad("B1", "no-binding", "no string field `binding`; keys %v", keys)
				continue
			}
			checkSnapshots := func(include []string, group string) {
				want := expectedSnapshotKeys(h, include, group)
				if len(want) == 0 {
					if has("snapshots") {
						bad("B5", "snapshots-without-include", "`snapshots` present although the binding includes none")
					}
					return
				}
				if !has("snapshots") {
					bad("B5", "snapshots-missing", "`snapshots` missing, binding includes %v", want)
					return
				}
				// exactly the included bindings, nothing of other contexts of the same array
				if got := sortedKeys(c.Snapshots); fmt.Sprint(got) != fmt.Sprint(want) {
					bad("B5", "snapshots-keys", "`snapshots` has keys %v, the binding includes %v", got, want)
				}
				// element shape per included binding
				for name, list := range c.Snapshots {
					ib := r.sc.bind(x.Hook, name)
					if ib == nil || ib.Kube == nil {
						continue
					}
					for _, el := range list {
						checkElement(r, bad, ib.Kube, el, "snapshots."+name)
					}
				}
			}
			switch {
			case c.Binding == "onStartup" && h.OnStartup != nil && c.Type == "":
				if len(keys) != 1 {
					bad("B2", "onStartup-extra-keys", "onStartup context carries keys %v", keys)
				}
			case c.Type == "Group":
				for _, k := range keys {
					if k != "binding" && k != "type" && k != "groupName" && k != "snapshots" {
						bad("B2", "group-extra-key:"+k, "Group context carries key %q", k)
					}
				}
				if b := r.sc.bind(x.Hook, c.Binding); b != nil {
					grp, inc := "", []string(nil)
					if b.Kube != nil {
						grp, inc = b.Kube.Group, b.Kube.IncludeSnapshots
					} else {
						grp, inc = b.Sched.Group, b.Sched.IncludeSnapshots
					}
					if gn, _ := c.Raw["groupName"].(string); gn != grp {
						bad("B3", "group-name", "groupName %q, binding's group is %q", gn, grp)
					}
					checkSnapshots(inc, grp)
				}
			case c.Type == "Schedule":
				b := r.sc.bind(x.Hook, c.Binding)
				if b == nil || b.Sched == nil {
					bad("B1", "unknown-binding", "no schedule binding of that name")
					continue
				}
				for _, k := range keys {
					if k != "binding" && k != "type" && k != "snapshots" {
						bad("B2", "schedule-extra-key:"+k, "Schedule context carries key %q", k)
					}
				}
				checkSnapshots(b.Sched.IncludeSnapshots, b.Sched.Group)
			case c.Type == "Synchronization":
				b := r.sc.bind(x.Hook, c.Binding)
				if b == nil || b.Kube == nil {
					bad("B1", "unknown-binding", "no kubernetes binding of that name")
					continue
				}
				if !c.HasObjects {
					bad("B3", "synchronization-without-objects", "Synchronization context without `objects`")
				}
				for _, k := range keys {
					if k != "binding" && k != "type" && k != "objects" && k != "snapshots" {
						bad("B2", "synchronization-extra-key:"+k, "Synchronization context carries key %q", k)
					}
				}
				for _, el := range c.Objects {
					checkElement(r, bad, b.Kube, el, "objects")
				}
				checkSnapshots(b.Kube.IncludeSnapshots, b.Kube.Group)
			case c.Type == "Event":
				b := r.sc.bind(x.Hook, c.Binding)
				if b == nil || b.Kube == nil {
					bad("B1", "unknown-binding", "no kubernetes binding of that name")
					continue
				}
				if c.WatchEvent != "Added" && c.WatchEvent != "Modified" && c.WatchEvent != "Deleted" {
					bad("B3", "event-without-watchEvent", "Event context with watchEvent %q", c.WatchEvent)
				}
				for _, k := range keys {
					if k != "binding" && k != "type" && k != "watchEvent" && k != "object" && k != "filterResult" && k != "snapshots" {
						bad("B2", "event-extra-key:"+k, "Event context carries key %q", k)
					}
				}
				el := parseObjRef(c.Raw)
				checkElement(r, bad, b.Kube, el, "event")
				checkSnapshots(b.Kube.IncludeSnapshots, b.Kube.Group)
			default:
				if c.Type == "Validating" || c.Type == "Mutating" || c.Type == "Conversion" {
					continue // checked by the webhook workloads
				}
				bad("B1", "unknown-type", "context with type %q and keys %v", c.Type, keys)
			}
		}
	}
}

// checkElement: object present iff keepFullObjectsInMemory, filterResult present iff jqFilter set and
// equal to the jq result for that very object.
func checkElement(r *OpRun, bad func(clause, sig, f string, a ...any), b *KubeBinding, el ObjRef, where string) {
	_, hasObjKey := el.Raw["object"]
	if b.DropObjects && hasObjKey && el.Raw["object"] != nil {
		bad("B4", "object-not-omitted", "%s: full object present although keepFullObjectsInMemory is false", where)
	}
	if !b.DropObjects && !el.HasObject {
		bad("B4", "object-missing", "%s: full object missing although keepFullObjectsInMemory is true", where)
	}
	if b.JqFilter == "" {
		if el.HasFilter {
			bad("B6", "filterResult-without-jqFilter", "%s: filterResult present although the binding has no jqFilter", where)
		}
		return
	}
	if !el.HasFilter {
		bad("B6", "filterResult-missing", "%s: filterResult missing although jqFilter is %q", where, b.JqFilter)
		return
	}
	if el.HasObject {
		obj, _ := el.Raw["object"].(map[string]any)
		want := r.sc.proj(b.JqFilter).Proj(toUnstructured(obj))
		if want != el.Filter {
			sig := "filterResult-differs"
			if el.Filter == "null" {
				sig = "filterResult-null"
			}
			bad("B6", sig, "%s: filterResult is %s but jq %q of the object in the same context gives %s", where, el.Filter, b.JqFilter, want)
		}
	} else if el.Filter == "null" {
		bad("B6", "filterResult-null", "%s: filterResult is null although jqFilter is %q", where, b.JqFilter)
	}
}

// ---------------------------------------------------------------- C03

func oracleC03(r *OpRun) {
	byQ := map[string][]*Exec{}
	for _, x := range r.o.Execs {
		if len(x.Ctxs) == 0 {
			continue
		}
		if isWebhookExec(x) {
			continue
		}
		q := r.queueOf(x)
		if q == "" {
			var qs []string
			for _, c := range x.Ctxs {
				qs = append(qs, c.Binding+"->"+r.ctxQueue(x.Hook, c))
			}
			if !strings.Contains(strings.Join(qs, ","), "?") {
				r.e.Viol("C03", "Q3", "contexts-of-different-queues", "execution #%d of %s combines contexts of bindings that belong to different queues: %v", x.N, x.Hook, qs)
			}
			continue
		}
		if q == "?" {
			continue
		}
		byQ[q] = append(byQ[q], x)
		if x.QueueSeen != "" && x.QueueSeen != q {
			r.e.Viol("C03", "Q3", "wrong-queue", "execution #%d of %s (%s) ran in queue %q, its binding names queue %q", x.N, x.Hook, x.Ctxs[0].String(), x.QueueSeen, q)
		}
		if x.HeadIdx > 0 {
			r.e.Viol("C03", "Q2", "not-head", "execution #%d of %s started while its task was at position %d of queue %q", x.N, x.Hook, x.HeadIdx, x.QueueSeen)
		}
	}
	for q, xs := range byQ {
		sort.Slice(xs, func(i, j int) bool { return xs[i].StartSeq < xs[j].StartSeq })
		for i := 0; i+1 < len(xs); i++ {
			if xs[i].EndSeq == 0 || xs[i].EndSeq > xs[i+1].StartSeq {
				r.e.Viol("C03", "Q1", "overlap", "queue %q: execution #%d (%s, seq %d..%d) overlaps execution #%d (%s, starts at seq %d)", q, xs[i].N, xs[i].Hook, xs[i].StartSeq, xs[i].EndSeq, xs[i+1].N, xs[i+1].Hook, xs[i+1].StartSeq)
				break
			}
		}
		if len(xs) > 1 {
			simrt.Count("probe:queue-with-several-executions")
		}
	}
	// Q3: a binding's tasks are placed in the queue named by its `queue` setting
	for _, a := range r.o.Arrivals {
		if a.Queue == "-" {
			continue
		}
		b := r.sc.bind(a.Hook, a.Binding)
		if b == nil {
			continue
		}
		want := "main"
		if b.Kube != nil {
			want = b.Kube.effQueue()
		} else if b.Sched.Queue != "" {
			want = b.Sched.Queue
		}
		if a.Queue != want {
			r.e.Viol("C03", "Q3", "wrong-queue", "task for binding %s of %s (%s) was created for queue %q, the binding names %q", a.Binding, a.Hook, a.Ctx, a.Queue, want)
		}
	}
	// Q4 independence: an event task created for an idle queue (nothing running, no back-off pending,
	// nothing queued before it) starts within a second of simulated time, whatever other queues do
	type span struct {
		from, to time.Duration
		failed   bool
	}
	busy := map[string][]span{}
	firstExec := map[string]*Exec{}
	for _, x := range r.o.Execs {
		if isWebhookExec(x) {
			continue
		}
		q := x.QueueSeen
		if q == "" {
			q = r.queueOf(x)
		}
		to := x.End
		if x.EndSeq == 0 {
			to = 1 << 62
		}
		busy[q] = append(busy[q], span{x.Start, to, x.Fail})
		for _, c := range x.Ctxs {
			if c.Type == "Event" && c.Obj != nil && c.Obj.HasObject {
				id := x.Hook + "|" + c.Binding + "/Event/" + c.WatchEvent + "/" + c.Obj.NS + "/" + c.Obj.Name + "@" + fmt.Sprint(c.Obj.RV)
				if firstExec[id] == nil {
					firstExec[id] = x
				}
			}
		}
	}
	startupEnd := time.Duration(0)
	for _, x := range r.o.Execs {
		for _, c := range x.Ctxs {
			if (c.Type == "Synchronization" || (c.Binding == "onStartup" && c.Type == "")) && x.End > startupEnd {
				startupEnd = x.End
			}
		}
	}
	if !r.quiet {
		startupEnd = 1 << 62
	}
	lastArrival := map[string]time.Duration{}
	for _, a := range r.o.Arrivals {
		if a.Queue == "-" {
			continue
		}
		prevArr, hadPrev := lastArrival[a.Queue]
		lastArrival[a.Queue] = a.At
		if a.Kind != "kube" || !strings.Contains(a.Ctx, "@") {
			continue
		}
		h := r.hookSpec(a.Hook)
		if h == nil || h.Extra["settings"] != nil {
			continue
		}
		x := firstExec[a.Hook+"|"+a.Ctx]
		if x == nil {
			continue
		}
		idle := true
		for _, sp := range busy[a.Queue] {
			// running at the arrival, or failed/ended within the back-off horizon before it
			if sp.from <= a.At && a.At <= sp.to+100*time.Millisecond {
				idle = false
			}
			if sp.failed && sp.to <= a.At && a.At-sp.to < 40*time.Second {
				idle = false
			}
		}
		// a task queued shortly before may still be waiting for its turn
		if hadPrev && a.At-prevArr < 2*time.Second {
			idle = false
		}
		if a.At < 2*time.Second {
			idle = false // start-up: the queue may not be started yet
		}
		if a.Queue == "main" {
			idle = false // main also works through start-up tasks, which may fail and back off without running a hook
		}
		_ = startupEnd
		if idle {
			simrt.Count("probe:arrival-at-idle-queue")
			if w := x.Start - a.At; w > time.Second+x.Dur {
				r.e.Viol("C03", "Q4", "idle-queue-delayed", "queue %q was idle when the task for %s (%s) was created at %v; its execution #%d started only at %v", a.Queue, a.Hook, a.Ctx, a.At, x.N, x.Start)
			}
		}
	}
	// Q3 order: per queue, Event contexts are first executed in the order their tasks were created
	if r.quiet {
		arrived := map[string][]string{}
		for _, a := range r.o.Arrivals {
			if a.Kind == "kube" && strings.Contains(a.Ctx, "@") && a.Group == "" {
				arrived[a.Queue] = append(arrived[a.Queue], a.Hook+"|"+a.Ctx)
			}
		}
		first := map[string][]string{}
		seenCtx := map[string]bool{}
		for _, x := range r.o.Execs {
			for _, c := range x.Ctxs {
				if c.Type != "Event" || c.Obj == nil || !c.Obj.HasObject {
					continue
				}
				id := x.Hook + "|" + c.Binding + "/Event/" + c.WatchEvent + "/" + c.Obj.NS + "/" + c.Obj.Name + "@" + fmt.Sprint(c.Obj.RV)
				if seenCtx[id] {
					continue
				}
				seenCtx[id] = true
				q := r.ctxQueue(x.Hook, c)
				first[q] = append(first[q], id)
			}
		}
		for q, got := range first {
			// restrict the arrival order to contexts that were executed (dropped ones: allowFailure, compaction)
			exec := map[string]bool{}
			for _, id := range got {
				exec[id] = true
			}
			var want []string
			for _, id := range arrived[q] {
				if exec[id] {
					want = append(want, id)
				}
			}
			// combining moves contexts of one hook forward over tasks of other hooks only when they are
			// adjacent, so per hook the order is exact
			perHook := func(l []string) map[string][]string {
				m := map[string][]string{}
				for _, id := range l {
					h := id[:strings.Index(id, "|")]
					m[h] = append(m[h], id)
				}
				return m
			}
			gw, ww := perHook(got), perHook(want)
			for h := range ww {
				if len(gw[h]) == len(ww[h]) && fmt.Sprint(gw[h]) != fmt.Sprint(ww[h]) {
					r.e.Viol("C03", "Q3", "order", "queue %q, hook %s: contexts first executed in order %v, their tasks were created in order %v", q, h, gw[h], ww[h])
				}
			}
		}
	}
}

func isWebhookExec(x *Exec) bool {
	for _, c := range x.Ctxs {
		if c.Type == "Validating" || c.Type == "Mutating" || c.Type == "Conversion" {
			return true
		}
	}
	return false
}

// ---------------------------------------------------------------- C04

func (r *OpRun) ctxAllowFailure(hook string, c Ctx) (allow bool, known bool) {
	if c.Binding == "onStartup" && c.Type == "" {
		return false, true
	}
	if c.Type == "Group" {
		// a Group context may stand for several compacted contexts of different bindings of the group
		return false, false
	}
	b := r.sc.bind(hook, c.Binding)
	if b == nil {
		return false, false
	}
	if b.Kube != nil {
		return b.Kube.AllowFailure, true
	}
	return b.Sched.AllowFailure, true
}

func identities(x *Exec) []string {
	var out []string
	for _, c := range x.Ctxs {
		if c.Type == "Group" {
			continue
		}
		out = append(out, ctxIdentity(c))
	}
	return out
}

// execsByQueue returns the executions of each queue in start order. An execution whose queue cannot be
// told (from its contexts or from the queue content while it ran) is put into every queue as a barrier
// (Unattributed): relations like "the next execution of this queue" do not reach across it.
func (r *OpRun) execsByQueue() map[string][]*Exec {
	byQ := map[string][]*Exec{}
	var unknown []*Exec
	for _, x := range r.o.Execs {
		if len(x.Ctxs) == 0 || isWebhookExec(x) {
			continue
		}
		q := r.queueOf(x)
		if q == "" || q == "?" {
			q = x.QueueSeen
		}
		if q == "" || q == "?" {
			unknown = append(unknown, x)
			continue
		}
		byQ[q] = append(byQ[q], x)
	}
	for q := range byQ {
		for _, u := range unknown {
			b := *u
			b.Unattributed = true
			byQ[q] = append(byQ[q], &b)
		}
		xs := byQ[q]
		sort.Slice(xs, func(i, j int) bool { return xs[i].StartSeq < xs[j].StartSeq })
	}
	return byQ
}

func oracleC04(r *OpRun) {
	byQ := r.execsByQueue()
	initial := queue.DefaultInitialDelayOnFailedTask
	for q, xs := range byQ {
		sort.Slice(xs, func(i, j int) bool { return xs[i].StartSeq < xs[j].StartSeq })
		for i, x := range xs {
			if !x.Fail || x.EndSeq == 0 || x.Unattributed {
				continue
			}
			nextUnknown := i+1 < len(xs) && xs[i+1].Unattributed // what follows in this queue is not known
			allFalse, allTrue, known := true, true, true
			for _, c := range x.Ctxs {
				a, k := r.ctxAllowFailure(x.Hook, c)
				if !k {
					known = false
				}
				if a {
					allFalse = false
				} else {
					allTrue = false
				}
			}
			var next *Exec
			if i+1 < len(xs) {
				next = xs[i+1]
			}
			if known && allFalse && !nextUnknown {
				simrt.Count("probe:failed-non-allowFailure-execution")
				if next == nil {
					if r.quiet {
						r.e.Viol("C04", "F3", "not-retried", "queue %q: failed execution #%d of %s {%s} was never run again", q, x.N, x.Hook, strings.Join(identities(x), "; "))
					}
					continue
				}
				ids, nids := identities(x), identities(next)
				ok := next.Hook == x.Hook && len(nids) >= len(ids)
				if ok {
					for k := range ids {
						if ids[k] != nids[k] {
							ok = false
						}
					}
				}
				if !ok {
					r.e.Viol("C04", "F1", "retry-differs", "queue %q: failed execution #%d of %s {%s} is followed by #%d of %s {%s}: not the same binding contexts again", q, x.N, x.Hook, strings.Join(ids, "; "), next.N, next.Hook, strings.Join(nids, "; "))
					continue
				}
				if d := next.Start - x.End; d < initial {
					r.e.Viol("C04", "F2", "retry-too-early", "queue %q: retry #%d started %v after failed #%d ended, initial delay is %v", q, next.N, d, x.N, initial)
				}
			}
			if known && allTrue && !nextUnknown {
				simrt.Count("probe:failed-allowFailure-execution")
				if next != nil {
					ids, nids := identities(x), identities(next)
					same := next.Hook == x.Hook && len(ids) > 0 && len(nids) >= len(ids)
					if same {
						for k := range ids {
							if ids[k] != nids[k] {
								same = false
							}
						}
					}
					// a Synchronization is delivered once per binding: the same one again in the next
					// execution of the queue is a re-run of the dropped task
					if same && len(x.Ctxs) == 1 && x.Ctxs[0].Type == "Synchronization" && len(next.Ctxs) >= 1 && next.Ctxs[0].Type == "Synchronization" && next.Ctxs[0].Binding == x.Ctxs[0].Binding {
						r.e.Viol("C04", "F4", "allowFailure-synchronization-retried", "queue %q: failed Synchronization #%d of %s/%s (allowFailure) was run again as #%d", q, x.N, x.Hook, x.Ctxs[0].Binding, next.N)
						same = false
					}
					// identical identities can only mean a re-run when they carry a resource version
					// (with keepFullObjectsInMemory=false an Event context names no object at all)
					for _, c := range x.Ctxs {
						if c.Type == "Event" && (c.Obj == nil || c.Obj.RV == 0) {
							same = false
						}
					}
					if same && strings.Contains(ids[0], "@") {
						r.e.Viol("C04", "F4", "allowFailure-retried", "queue %q: failed execution #%d of %s (allowFailure) was run again as #%d", q, x.N, x.Hook, next.N)
					}
				}
			}
			// F5 conservation: contexts of a non-allowFailure binding are never discarded after a failed run
			if r.quiet {
				for _, c := range x.Ctxs {
					a, k := r.ctxAllowFailure(x.Hook, c)
					if !k || a {
						continue
					}
					if c.Type == "Event" && (c.Obj == nil || (c.Obj.RV == 0 && c.Obj.Filter == "")) {
						continue
					}
					if c.Type != "Event" && c.Type != "Synchronization" {
						continue
					}
					id := ctxIdentity(c)
					if c.Type == "Synchronization" {
						id = c.Binding + "/Synchronization"
					}
					found := false
					for _, y := range xs[i+1:] {
						if y.Fail {
							continue
						}
						for _, d := range y.Ctxs {
							if ctxIdentity(d) == id || (c.Type == "Synchronization" && d.Type == "Synchronization" && d.Binding == c.Binding) {
								found = true
							}
						}
					}
					if !found {
						sig := "context-discarded"
						if r.headMayAllowFailure(x) {
							sig = "combined-behind-allowFailure-head"
						}
						r.e.Viol("C04", "F5", sig, "queue %q: context %s of a binding that does not allow failure was part of failed execution #%d {%s} and of no later successful one", q, id, x.N, strings.Join(identities(x), "; "))
					}
				}
			}
		}
	}
}

// ---------------------------------------------------------------- C07 (operator level)

// oracleC07op: the merge is durable. Once following tasks were merged into the head task (the
// execution shows several contexts) and removed from the queue, the head task carries all of
// them: when that execution fails and the task is run again, the hook's context file starts with
// the same contexts in the same order (later arrivals may be merged in behind them).
func oracleC07op(r *OpRun) {
	byQ := r.execsByQueue()
	for q, xs := range byQ {
		sort.Slice(xs, func(i, j int) bool { return xs[i].StartSeq < xs[j].StartSeq })
		for i, x := range xs {
			if !x.Fail || x.EndSeq == 0 || i+1 >= len(xs) || x.Unattributed || xs[i+1].Unattributed {
				continue
			}
			ids := identities(x)
			if len(ids) < 2 || len(ids) != len(x.Ctxs) {
				continue // nothing merged, or Group contexts (compaction) involved
			}
			retried := true
			for _, c := range x.Ctxs {
				a, k := r.ctxAllowFailure(x.Hook, c)
				if !k || a {
					retried = false
				}
			}
			if !retried || r.headMayAllowFailure(x) {
				continue
			}
			simrt.Count("probe:merged-execution-failed-and-retried")
			next := xs[i+1]
			nids := identities(next)
			ok := next.Hook == x.Hook && len(nids) >= len(ids)
			if ok {
				for k := range ids {
					if ids[k] != nids[k] {
						ok = false
					}
				}
			}
			if !ok {
				r.e.Viol("C07", "M5", "merged-contexts-lost-on-retry", "queue %q: merged execution #%d of %s received {%s} and failed; the retry #%d of %s received {%s}", q, x.N, x.Hook, strings.Join(ids, "; "), next.N, next.Hook, strings.Join(nids, "; "))
			}
		}
	}
}

// oracleC07adjacent (M7): when a head task is executed, the task right behind it is not one that should
// have been merged: a HookRun task of the same hook that had been queued at an earlier simulated instant
// than the start of the execution. (The merge runs at the instant the execution starts; picking, merging
// and starting take no simulated time, waiting for the rate limiter does.)
func oracleC07adjacent(r *OpRun) {
	for _, x := range r.o.Execs {
		if x.NextSameHookQueuedAt == 0 || len(x.Ctxs) == 0 || isWebhookExec(x) {
			continue
		}
		if x.Ctxs[0].Type == "Synchronization" {
			continue // an ungrouped Synchronization is executed on its own
		}
		if x.NextSameHookQueuedAt < x.Start {
			r.e.Viol("C07", "M7", "adjacent-task-not-merged", "execution #%d of %s started at %v with {%s} while the next task of queue %q, queued at %v, is a task of the same hook", x.N, x.Hook, x.Start, strings.Join(identities(x), "; "), x.QueueSeen, x.NextSameHookQueuedAt)
		}
	}
}

// oracleC07sync (M6): merging never swallows contexts. Every kubernetes binding with a Synchronization
// to deliver receives it - as its own Synchronization context or, for a grouped binding, as a Group
// context of its group - in some successful execution, also when the task in front of it in the queue
// belongs to a binding whose Synchronization is not executed. Bindings whose Synchronization was part of
// a failed execution are left to C04.
func oracleC07sync(r *OpRun) {
	if !r.quiet {
		return
	}
	for _, h := range r.sc.Hooks {
		if len(h.Kube) < 2 {
			continue
		}
		for _, b := range h.Kube {
			if b.NoSync {
				continue
			}
			delivered, failed := false, false
			for _, x := range r.o.Execs {
				if x.Hook != h.Path {
					continue
				}
				for _, c := range x.Ctxs {
					mine := (c.Type == "Synchronization" && c.Binding == b.Name) || (b.Group != "" && c.Type == "Group" && fmt.Sprint(c.Raw["groupName"]) == b.Group)
					if !mine {
						continue
					}
					if x.Fail || x.EndSeq == 0 {
						failed = true
					} else {
						delivered = true
					}
				}
			}
			if !delivered && !failed {
				r.e.Viol("C07", "M6", "synchronization-context-lost", "hook %s: binding %s never received its Synchronization (as %s), although no execution carrying it failed", h.Path, b.Name, map[bool]string{true: "a Group context of group " + b.Group, false: "a Synchronization context"}[b.Group != ""])
			}
		}
	}
}

// ---------------------------------------------------------------- C06

func oracleC06(r *OpRun) {
	execs := r.o.Execs
	// expected onStartup order: ascending order value, then hook path
	type su struct {
		path  string
		order int
	}
	var want []su
	for _, h := range r.sc.Hooks {
		if h.OnStartup != nil {
			want = append(want, su{h.Path, *h.OnStartup})
		}
	}
	sort.SliceStable(want, func(i, j int) bool {
		if want[i].order != want[j].order {
			return want[i].order < want[j].order
		}
		return want[i].path < want[j].path
	})
	isStartup := func(x *Exec) bool {
		return len(x.Ctxs) == 1 && x.Ctxs[0].Binding == "onStartup" && x.Ctxs[0].Type == "" && r.hookSpec(x.Hook) != nil && r.hookSpec(x.Hook).OnStartup != nil
	}
	var gotOK []string
	lastStartup := -1
	firstOther := -1
	for i, x := range execs {
		if isWebhookExec(x) {
			continue
		}
		if isStartup(x) {
			lastStartup = i
			if !x.Fail && x.EndSeq != 0 {
				gotOK = append(gotOK, x.Hook)
			}
		} else if firstOther < 0 {
			firstOther = i
		}
	}
	if firstOther >= 0 && lastStartup > firstOther {
		r.e.Viol("C06", "U2", "onStartup-after-other", "execution #%d (%s {%s}) ran before onStartup execution #%d of %s", execs[firstOther].N, execs[firstOther].Hook, strings.Join(identities(execs[firstOther]), "; "), execs[lastStartup].N, execs[lastStartup].Hook)
	}
	var wantPaths []string
	for _, w := range want {
		wantPaths = append(wantPaths, fmt.Sprintf("%s(order %d)", w.path, w.order))
	}
	complete := r.quiet || firstOther >= 0
	for i, g := range gotOK {
		if i >= len(want) || want[i].path != g {
			sig := "onStartup-order"
			if len(want) > 12 {
				sig = "onStartup-order:more-than-12-hooks"
			}
			r.e.Viol("C06", "U1", sig, "successful onStartup executions %v, expected order %v", gotOK, wantPaths)
			break
		}
	}
	if complete && len(gotOK) < len(want) {
		r.e.Viol("C06", "U1", "onStartup-missing", "successful onStartup executions %v, expected %v", gotOK, wantPaths)
	}
	if len(gotOK) > len(want) {
		r.e.Viol("C06", "U1", "onStartup-twice", "successful onStartup executions %v, expected %v", gotOK, wantPaths)
	}
	// Synchronization per binding
	type pos struct{ hook, binding string }
	syncOK := map[pos][]*Exec{}
	syncFailedBehindAllowed := map[pos]bool{}
	syncDropped := map[pos]*Exec{}
	seenSync := map[pos]bool{}
	firstEvent := map[pos]*Exec{}
	firstSched := map[string]*Exec{}
	firstGroup := map[string]*Exec{}
	var syncOrder []pos
	for _, x := range execs {
		for _, c := range x.Ctxs {
			p := pos{x.Hook, c.Binding}
			switch c.Type {
			case "Synchronization":
				// the Synchronization step of a binding is complete when an execution carrying it
				// succeeds, or fails while failure is allowed (then it is dropped, see C04)
				allowed := false
				if b := r.sc.bind(x.Hook, c.Binding); b != nil && b.Kube != nil {
					allowed = b.Kube.AllowFailure
				}
				if !seenSync[p] {
					seenSync[p] = true
					syncOrder = append(syncOrder, p)
				}
				if !x.Fail && x.EndSeq != 0 {
					syncOK[p] = append(syncOK[p], x)
				} else if x.Fail && allowed && x.EndSeq != 0 && syncDropped[p] == nil {
					syncDropped[p] = x // failed while failure is allowed: dropped unless it shows up again
				}
				if x.Fail && len(x.Ctxs) > 1 {
					if a, known := r.ctxAllowFailure(x.Hook, x.Ctxs[0]); known && a {
						syncFailedBehindAllowed[p] = true
					}
					if gb := r.sc.bind(x.Hook, x.Ctxs[0].Binding); x.Ctxs[0].Type == "Group" && gb != nil && gb.Kube != nil {
						for _, m := range groupMembers(r.hookSpec(x.Hook), gb.Kube.Group) {
							if mb := r.sc.bind(x.Hook, m); mb != nil && mb.Kube.AllowFailure {
								syncFailedBehindAllowed[p] = true
							}
						}
					}
				}
			case "Event":
				if firstEvent[p] == nil {
					firstEvent[p] = x
				}
			case "Schedule":
				if firstSched[x.Hook] == nil {
					firstSched[x.Hook] = x
				}
			case "Group":
				if firstGroup[x.Hook+"|"+c.Binding] == nil && !x.Fail {
					firstGroup[x.Hook+"|"+c.Binding] = x
				}
			}
		}
	}
	var wantSync []pos
	for _, h := range r.sc.Hooks {
		for _, b := range h.Kube {
			p := pos{h.Path, b.Name}
			n := len(syncOK[p])
			switch {
			case b.Group != "":
				// shares one Group execution; the JSON does not name the binding
			case b.NoSync:
				if n > 0 {
					sig := "synchronization-although-disabled"
					if len(syncOK[p][0].Ctxs) > 1 {
						sig = "synchronization-although-disabled:combined"
					}
					r.e.Viol("C06", "U3", sig, "binding %s of %s has executeHookOnSynchronization=false but received Synchronization in execution #%d {%s}", b.Name, h.Path, syncOK[p][0].N, strings.Join(identities(syncOK[p][0]), "; "))
				}
			default:
				wantSync = append(wantSync, p)
				if n > 1 {
					r.e.Viol("C06", "U3", "synchronization-twice", "binding %s of %s received %d successful Synchronizations", b.Name, h.Path, n)
				}
				if n == 0 && r.quiet && syncDropped[p] == nil {
					sig := "synchronization-missing"
					if syncFailedBehindAllowed[p] {
						// its only execution failed and was dropped because it was combined behind a task that allows failure
						sig = "synchronization-missing:combined-behind-allowFailure-head"
					}
					r.e.Viol("C06", "U3", sig, "binding %s of %s never received its Synchronization successfully", b.Name, h.Path)
				}
			}
			if n == 0 && syncDropped[p] != nil {
				syncOK[p] = []*Exec{syncDropped[p]}
				n = 1
			}
			if n > 0 {
				if ev := firstEvent[p]; ev != nil && ev.StartSeq < syncOK[p][0].EndSeq {
					r.e.Viol("C06", "U4", "event-before-synchronization", "binding %s of %s: Event in execution #%d before its Synchronization #%d completed", b.Name, h.Path, ev.N, syncOK[p][0].N)
				}
				if sx := firstSched[h.Path]; sx != nil && sx.StartSeq < syncOK[p][0].EndSeq {
					r.e.Viol("C06", "U5", "schedule-before-synchronization", "hook %s: Schedule execution #%d started before Synchronization of %s (#%d) completed", h.Path, sx.N, b.Name, syncOK[p][0].N)
				}
			}
		}
	}
	// U7: the bindings of one group share ONE Group execution for their Synchronization. Events are
	// buffered until a binding is unlocked, and the shared execution unlocks all members together, so
	// before the last member is unlocked exactly one successful Group execution of that group can start.
	for _, h := range r.sc.Hooks {
		groups := map[string][]string{}
		for _, b := range h.Kube {
			if b.Group != "" {
				groups[b.Group] = append(groups[b.Group], b.Name)
			}
		}
		for g, members := range groups {
			if len(members) < 2 {
				continue
			}
			ok := true
			lastUnlock := int64(0)
			for _, m := range members {
				b := r.sc.bind(h.Path, m)
				if b == nil || b.Kube == nil || b.Kube.NoSync || b.Kube.NsLabel != nil {
					// (a labelSelector binding may have no informer yet when it is synchronized; informers of
					// namespaces that appear later start unlocked, so "the first unlock" says nothing there)
					ok = false
					break
				}
				first := int64(1 << 62)
				for _, ri := range r.obs.ByMonitor(r.monitorOf(h.Path, m)) {
					for _, u := range ri.Unlocks {
						if u < first {
							first = u
						}
					}
				}
				if first == int64(1<<62) {
					ok = false // never unlocked in this run
					break
				}
				if first > lastUnlock {
					lastUnlock = first
				}
			}
			if !ok {
				continue
			}
			var shared []*Exec
			for _, x := range execs {
				if x.Hook != h.Path || x.Fail || x.EndSeq == 0 || x.StartSeq >= lastUnlock {
					continue
				}
				for _, c := range x.Ctxs {
					if c.Type == "Group" && fmt.Sprint(c.Raw["groupName"]) == g {
						shared = append(shared, x)
						break
					}
				}
			}
			simrt.Count("probe:group-synchronization-checked")
			if len(shared) > 1 {
				var ns []string
				for _, x := range shared {
					ns = append(ns, fmt.Sprintf("#%d {%s}", x.N, x.Ctxs[0].String()))
				}
				r.e.Viol("C06", "U7", "group-synchronization-not-shared", "hook %s: the bindings %v of group %q received %d successful Group executions before all of them were unlocked (%s), they share one", h.Path, members, g, len(shared), strings.Join(ns, ", "))
			}
		}
	}
	// order of Synchronizations: hooks alphabetically, bindings in declared order
	var gotSync []pos
	for _, p := range syncOrder {
		b := r.sc.bind(p.hook, p.binding)
		if b != nil && b.Kube != nil && b.Kube.Group == "" && !b.Kube.NoSync {
			gotSync = append(gotSync, p)
		}
	}
	for i := range gotSync {
		if i < len(wantSync) && gotSync[i] != wantSync[i] {
			r.e.Viol("C06", "U6", "synchronization-order", "Synchronizations delivered in order %v, expected %v", gotSync, wantSync)
			break
		}
	}
}

// ---------------------------------------------------------------- C11 (operator level; counting is done by the schedule-manager workload)

func oracleC11(r *OpRun) {
	for _, x := range r.o.Execs {
		for _, c := range x.Ctxs {
			if c.Type != "Schedule" {
				continue
			}
			b := r.sc.bind(x.Hook, c.Binding)
			if b == nil || b.Sched == nil {
				r.e.Viol("C11", "T3", "schedule-context-for-unknown-binding", "execution #%d of %s has a Schedule context for %q which is not a schedule binding of that hook", x.N, x.Hook, c.Binding)
			}
		}
	}
	// each firing produces exactly one task for every enabled schedule binding with that crontab
	type batch struct {
		crontab string
		seq     int64
		tasks   []Arrival
	}
	var batches []*batch
	byN := map[int]*batch{}
	for _, a := range r.o.Arrivals {
		if !strings.HasPrefix(a.Kind, "schedule:") {
			continue
		}
		bt := byN[a.Batch]
		if bt == nil {
			bt = &batch{crontab: strings.TrimPrefix(a.Kind, "schedule:"), seq: a.Seq}
			byN[a.Batch] = bt
			batches = append(batches, bt)
		}
		if a.Queue != "-" {
			bt.tasks = append(bt.tasks, a)
		}
	}
	enabled := map[string]bool{} // hook -> its schedule bindings have been seen enabled
	attrs := func(h *HookSpec, sb *SchedBinding) string {
		q := sb.Queue
		if q == "" {
			q = "main"
		}
		return fmt.Sprintf("queue=%q group=%q allowFailure=%v snapshots=%v", q, sb.Group, sb.AllowFailure, expectedSnapshotKeysUnsorted(h, sb))
	}
	for _, bt := range batches {
		simrt.Count("probe:schedule-firing-handled")
		// bindings are matched as a multiset: several bindings of a hook may carry the same name
		// (`name` is optional, unnamed bindings are all called "schedule")
		want := map[string][]string{} // hook|name -> attributes of each binding with this crontab
		for _, h := range r.sc.Hooks {
			for i := range h.Sched {
				if h.Sched[i].Crontab == bt.crontab {
					k := h.Path + "|" + h.Sched[i].Name
					want[k] = append(want[k], attrs(h, &h.Sched[i]))
				}
			}
		}
		got := map[string][]string{}
		for _, a := range bt.tasks {
			k := a.Hook + "|" + a.Binding
			b := r.sc.bind(a.Hook, a.Binding)
			if b == nil || b.Sched == nil {
				r.e.Viol("C11", "T3", "task-for-unknown-binding", "firing of %q produced a task for %s which is not a schedule binding", bt.crontab, k)
				continue
			}
			if _, ok := want[k]; !ok {
				r.e.Viol("C11", "T3", "task-for-other-crontab", "firing of %q produced a task for %s which has no binding with that crontab", bt.crontab, k)
				continue
			}
			got[k] = append(got[k], fmt.Sprintf("queue=%q group=%q allowFailure=%v snapshots=%v", a.Queue, a.Group, a.Allow, a.Snapshots))
		}
		for k, g := range got {
			w := append([]string(nil), want[k]...)
			if len(g) > len(w) {
				r.e.Viol("C11", "T1", "duplicate-task", "firing of %q produced %d tasks for %s, which has %d binding(s) with that crontab", bt.crontab, len(g), k, len(w))
				continue
			}
			for _, ga := range g {
				found := false
				for i, wa := range w {
					if wa == ga {
						w = append(w[:i], w[i+1:]...)
						found = true
						break
					}
				}
				if !found {
					r.e.Viol("C11", "T5", "task-attributes", "task for %s carries %s; its binding(s) with that crontab declare %v", k, ga, want[k])
				}
			}
		}
		for k, w := range want {
			hook := strings.SplitN(k, "|", 2)[0]
			if enabled[hook] && len(got[k]) < len(w) {
				sig := "binding-without-task"
				if len(w) > 1 {
					sig = "binding-without-task:same-name-bindings"
				}
				r.e.Viol("C11", "T2", sig, "firing of %q produced %d task(s) for %s, which has %d enabled binding(s) with that crontab (tasks of the firing: %d)", bt.crontab, len(got[k]), k, len(w), len(bt.tasks))
			}
		}
		for _, a := range bt.tasks {
			enabled[a.Hook] = true
		}
	}
}

// includeSnapshotsFrom as carried by a schedule task: the declared list, extended by the group's kubernetes bindings
func expectedSnapshotKeysUnsorted(h *HookSpec, sb *SchedBinding) []string {
	out := append([]string(nil), sb.IncludeSnapshots...)
	if sb.Group != "" {
		for _, m := range groupMembers(h, sb.Group) {
			dup := false
			for _, x := range out {
				if x == m {
					dup = true
				}
			}
			if !dup {
				out = append(out, m)
			}
		}
	}
	return out
}

// headMayAllowFailure: the first context of the execution belongs to a binding that allows failure
// (for a Group context: the named binding or any kubernetes binding of its group, since compaction
// keeps only the last context of a run of one group).
func (r *OpRun) headMayAllowFailure(x *Exec) bool {
	if len(x.Ctxs) < 2 {
		return false
	}
	c := x.Ctxs[0]
	b := r.sc.bind(x.Hook, c.Binding)
	if b == nil {
		return false
	}
	grp := ""
	if b.Kube != nil {
		if b.Kube.AllowFailure {
			return true
		}
		grp = b.Kube.Group
	} else {
		if b.Sched.AllowFailure {
			return true
		}
		grp = b.Sched.Group
	}
	if c.Type == "Group" && grp != "" {
		h := r.hookSpec(x.Hook)
		for _, kb := range h.Kube {
			if kb.Group == grp && kb.AllowFailure {
				return true
			}
		}
		for _, sb := range h.Sched {
			if sb.Group == grp && sb.AllowFailure {
				return true
			}
		}
	}
	return false
}

// ---------------------------------------------------------------- C17

func oracleC17(r *OpRun, calledAt, returnedAt time.Duration) {
	s0 := r.obs.StopSeq
	if s0 == 0 {
		r.e.Viol("C17", "H0", "queues-not-stopped", "Shutdown() returned without stopping the task queues")
		return
	}
	if d := returnedAt - calledAt; d > shop.WaitQueuesTimeout+time.Second {
		r.e.Viol("C17", "H4", "shutdown-slow", "Shutdown() took %v of simulated time, the wait time-out is %v", d, shop.WaitQueuesTimeout)
	}
	after := map[string][]*Exec{}
	inFlight := map[string]*Exec{}
	total := 0
	for _, x := range r.o.Execs {
		if isWebhookExec(x) || len(x.Ctxs) == 0 {
			continue
		}
		q := x.QueueSeen
		if q == "" {
			q = r.queueOf(x)
		}
		if q == "" || q == "?" {
			q = "unknown:" + x.Hook
		}
		if x.StartSeq < s0 && (x.EndSeq == 0 || x.EndSeq > s0) {
			inFlight[q] = x
		}
		if x.StartSeq > s0 {
			after[q] = append(after[q], x)
			total++
		}
	}
	for q, xs := range after {
		if strings.HasPrefix(q, "unknown:") {
			continue
		}
		if len(xs) > 1 {
			r.e.Viol("C17", "H1", "second-task-after-stop", "queue %q started %d executions after the stop request (#%d, #%d ...): only a task already picked may still run", q, len(xs), xs[0].N, xs[1].N)
		}
		if f := inFlight[q]; f != nil && len(xs) > 0 {
			r.e.Viol("C17", "H1", "task-after-running-handler", "queue %q: execution #%d was running when the stop was requested, yet #%d started afterwards", q, f.N, xs[0].N)
		}
	}
	nq := len(r.o.queueNames())
	if total > nq {
		r.e.Viol("C17", "H3", "executions-after-stop", "%d executions started after the stop request, there are only %d queues", total, nq)
	}
	// every worker terminates: status "stop" once its handler has returned
	for _, qn := range r.o.queueNames() {
		q := r.o.Op.TaskQueues.GetByName(qn)
		if q == nil {
			continue
		}
		if sts := r.obs.QStatus[qn]; len(sts) > 0 && sts[len(sts)-1].Status == "run first task" {
			continue // a handler (e.g. one that waits for a slow API answer) is still running: the worker stops when it returns
		}
		if st := q.GetStatus(); st != "stop" {
			r.e.Viol("C17", "H2", "worker-not-stopped", "queue %q has status %q after shutdown although no handler is running", qn, st)
		}
	}
	// H5: a worker that was waiting (back-off, empty queue) when the stop was requested notices it in
	// its wait loop. Picking a task is instantaneous, so a task picked at a later simulated instant than
	// the stop request was picked by a worker that slept through the request.
	for _, qn := range r.o.queueNames() {
		for _, st := range r.obs.QStatus[qn] {
			if st.Status == "run first task" && st.At > calledAt {
				r.e.Viol("C17", "H5", "task-picked-after-waiting-through-stop", "queue %q picked a task at %v, shutdown was requested at %v (queues stopped at %v): nothing of the shutdown sequence takes simulated time before the queues are stopped, and a waiting worker notices the request", qn, st.At, calledAt, r.obs.StopAt)
				break
			}
		}
	}
	simrt.Count("probe:shutdown-checked")
	if len(inFlight) > 0 {
		simrt.Count("probe:stop-while-handler-running")
	}
	if total > 0 {
		simrt.Count("probe:picked-task-ran-after-stop")
	}
}

// ---------------------------------------------------------------- C18

func oracleC18(r *OpRun) {
	for _, h := range r.sc.Hooks {
		st, ok := h.Extra["settings"].(map[string]any)
		if !ok {
			continue
		}
		iv, _ := time.ParseDuration(fmt.Sprint(st["executionMinInterval"]))
		burst, _ := st["executionBurst"].(int)
		if iv <= 0 || burst <= 0 {
			continue
		}
		var starts []time.Duration
		var ns []int
		for _, x := range r.o.Execs {
			if x.Hook == h.Path && !isWebhookExec(x) {
				starts = append(starts, x.Start)
				ns = append(ns, x.N)
			}
		}
		sort.Slice(starts, func(i, j int) bool { return starts[i] < starts[j] })
		if len(starts) > burst {
			simrt.Count("probe:rate-limited-hook-with-more-than-burst-executions")
		}
		for i := 0; i < len(starts); i++ {
			for j := i + 1; j < len(starts); j++ {
				n := j - i + 1
				window := starts[j] - starts[i]
				allowed := burst + int((window+iv-1)/iv)
				if n > allowed {
					r.e.Viol("C18", "R1", "rate-exceeded", "hook %s (interval %v, burst %d): %d executions started within %v (from %v), at most %d allowed", h.Path, iv, burst, n, window, starts[i], allowed)
					i = len(starts)
					break
				}
			}
		}
	}
}
