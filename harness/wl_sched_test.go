package harness

// C11 (a): the real scheduleManager with the real robfig/cron on the fake clock; generated
// histories of Add/Remove of (crontab, id) pairs; a consumer of ScheduleCh.

import (
	"context"
	"fmt"
	"strings"
	"sync"
	"time"

	"gopkg.in/robfig/cron.v2"

	"github.com/deckhouse/deckhouse/pkg/log"

	schedulemanager "github.com/flant/shell-operator/pkg/schedule_manager"
	smtypes "github.com/flant/shell-operator/pkg/schedule_manager/types"
	simrt "verifsimrt"
)

func init() {
	register(&Workload{Name: "schedmgr", Run: runSchedMgrWL})
	plans["C11"] = []Part{
		{WL: "schedmgr", Cfg: "prop=C11", Quick: 1500, Thor: 40000},
		{WL: "opsim", Cfg: "prop=C11", Quick: 150, Thor: 4000},
	}
}

type firing struct {
	At      time.Duration
	Crontab string
}

type smOp struct {
	At      time.Duration
	Op      string
	Crontab string
	ID      string
}

var smCrontabs = map[string]int{"* * * * * *": 1, "*/2 * * * * *": 2, "*/3 * * * * *": 3, "*/5 * * * * *": 5}

func runSchedMgrWL(e *Env) {
	s := e.S
	wl := e.WL
	s.MaxYield = 400000
	s.MaxSim = time.Hour
	s.Focus = []string{"pkg/schedule_manager/"}
	s.Policy = simrt.RandomWalk
	s.SwitchDen = []int{3, 10, 50}[wl.Choose(3)]
	ctx, cancel := context.WithCancel(context.Background())
	crontabs := sortedKeys(smCrontabs)
	var ops []smOp
	var fired []firing
	var sm schedulemanager.ScheduleManager
	var refMu sync.Mutex
	var refFired []firing
	refCron := cron.New()
	refRunning := false
	refStop := func() {
		if refRunning {
			refRunning = false
			refCron.Stop()
		}
	}
	refIDs := map[string]map[string]bool{}
	refEntry := map[string]cron.EntryID{}
	refApply := func(op, c, id string) {
		if refIDs[c] == nil {
			refIDs[c] = map[string]bool{}
		}
		before := len(refIDs[c]) > 0
		if op == "Add" {
			refIDs[c][id] = true
		} else {
			delete(refIDs[c], id)
		}
		after := len(refIDs[c]) > 0
		if !before && after {
			cc := c
			refEntry[c], _ = refCron.AddFunc(c, func() {
				refMu.Lock()
				refFired = append(refFired, firing{time.Since(e.T0), cc})
				refMu.Unlock()
			})
		}
		if before && !after {
			refCron.Remove(refEntry[c])
		}
	}
	opsDone := false
	stopAt := time.Duration(-1)
	simrt.GoNamed("boot", func() {
		m := schedulemanager.NewScheduleManager(ctx, log.NewNop())
		sm = m
		simrt.GoNamed("consumer", func() {
			for {
				select {
				case c := <-m.Ch():
					simrt.Yield("consumer")
					fired = append(fired, firing{e.Since(), c})
					simrt.Logf("fired %s at %v", c, e.Since())
				case <-ctx.Done():
					return
				}
			}
		})
		startFirst := wl.Choose(2) == 0
		if startFirst {
			m.Start()
			refCron.Start()
			refRunning = true
		}
		simrt.GoNamed("driver", func() {
			n := 2 + wl.Choose(8)
			for i := 0; i < n; i++ {
				simrt.Yield("drv")
				simrt.Sleep(time.Duration(1+wl.Choose(40)) * 100 * time.Millisecond)
				c := crontabs[wl.Choose(len(crontabs))]
				id := fmt.Sprintf("id%d", wl.Choose(3))
				op := "Add"
				if wl.Choose(3) == 0 {
					op = "Remove"
				}
				ops = append(ops, smOp{e.Since(), op, c, id})
				simrt.Logf("%s %s %s at %v", op, c, id, e.Since())
				if op == "Add" {
					m.Add(smtypes.ScheduleEntry{Crontab: c, Id: id})
				} else {
					m.Remove(smtypes.ScheduleEntry{Crontab: c, Id: id})
				}
				refApply(op, c, id)
				simrt.Settle("ref-cron")
				if i == 0 && !startFirst {
					m.Start()
					refCron.Start()
					refRunning = true
					simrt.Settle("ref-cron-start")
				}
			}
			simrt.Sleep(time.Duration(5+wl.Choose(10)) * time.Second)
			if wl.Choose(2) == 0 {
				m.Stop()
				refStop()
				stopAt = e.Since()
				simrt.Sleep(8 * time.Second)
			}
			opsDone = true
		})
	})
	s.Arm()
	err := s.Run(func() bool { return len(s.Panics) > 0 || opsDone })
	end := e.Since()
	if err != nil {
		e.Out.Truncated = true
	}
	panicsToViolations(e, "C11")
	e.Out.NonTrivial = len(ops) > 1
	if err == nil && len(s.Panics) == 0 {
		// The reference is a single-copy model: one real cron entry per crontab while its set of
		// registered ids is non-empty (same library, same fake clock, same instants of the calls),
		// so the comparison is independent of how robfig/cron computes activation times.
		refMu.Lock()
		ref := append([]firing(nil), refFired...)
		refMu.Unlock()
		count := func(l []firing) map[string]int {
			m := map[string]int{}
			for _, f := range l {
				m[fmt.Sprintf("%s @%v", f.Crontab, f.At)]++
			}
			return m
		}
		got, want := count(fired), count(ref)
		keys := map[string]bool{}
		for k := range got {
			keys[k] = true
		}
		for k := range want {
			keys[k] = true
		}
		for _, k := range sortedKeys(keys) {
			// firings in the last instant of the run may still be in flight on one side
			if strings.HasSuffix(k, "@"+end.String()) {
				continue
			}
			switch {
			case got[k] > want[k] && want[k] > 0:
				e.Viol("C11", "T1", "duplicate-firing", "%s: %d firings, a single registration fires %d time(s); operations: %v", k, got[k], want[k], ops)
			case got[k] > want[k]:
				e.Viol("C11", "T2", "firing-while-unregistered", "%s: fired although no id is registered for the crontab at that time; operations: %v", k, ops)
			case got[k] < want[k]:
				e.Viol("C11", "T2", "missing-firing", "%s: %d firings, expected %d while an id is registered; operations: %v", k, got[k], want[k], ops)
			default:
				simrt.Count("probe:due-instant-checked")
			}
		}
		if stopAt >= 0 {
			for _, f := range fired {
				if f.At > stopAt+time.Second {
					e.Viol("C11", "T4", "firing-after-stop", "crontab %q fired at %v after Stop() at %v", f.Crontab, f.At, stopAt)
				}
			}
		}
	}
	if e.Detail {
		e.Out.Sample = map[string]any{"operations": fmt.Sprint(ops), "firings": fmt.Sprint(fired), "stopped_at": stopAt.String()}
	}
	_ = sm
	teardown(e, func() { cancel(); refStop() })
}
