package harness

// C16: hook metrics. The real MetricStorage (own prometheus registry) receives sequences of
// batches, written as the JSON lines a hook would write and parsed by the real parser;
// Gather() is compared with a reference registry after every batch; a concurrent phase
// applies batches of disjoint groups from several tasks with a concurrent Gather().

import (
	"context"
	"fmt"
	"sort"
	"strconv"
	"strings"

	"github.com/deckhouse/deckhouse/pkg/log"

	metricstorage "github.com/flant/shell-operator/pkg/metric_storage"
	"github.com/flant/shell-operator/pkg/metric_storage/operation"
	simrt "verifsimrt"
)

func init() {
	register(&Workload{Name: "metrics", Run: runMetricsWL})
	plans["C16"] = []Part{
		{WL: "metrics", Cfg: "prop=C16", Quick: 4000, Thor: 100000},
		{WL: "metrics", Cfg: "prop=C16,steer=1", Quick: 4000, Thor: 100000},
		{WL: "metrics", Cfg: "prop=C16,steer=1,conc=1", Quick: 2000, Thor: 50000},
	}
}

type refSeries struct {
	Name   string
	Labels string // canonical k=v,...
	Value  float64
	Count  uint64 // histogram
	Group  string
}

func labelKey(l map[string]string) string {
	var ks []string
	for k := range l {
		ks = append(ks, k)
	}
	sort.Strings(ks)
	var p []string
	for _, k := range ks {
		p = append(p, k+"="+l[k])
	}
	return strings.Join(p, ",")
}

func gatherMap(ms *metricstorage.MetricStorage) (map[string]string, error) {
	fams, err := ms.Gatherer.Gather()
	if err != nil {
		return nil, err
	}
	out := map[string]string{}
	for _, f := range fams {
		for _, m := range f.GetMetric() {
			l := map[string]string{}
			for _, lp := range m.GetLabel() {
				if lp.GetValue() != "" {
					l[lp.GetName()] = lp.GetValue()
				}
			}
			k := f.GetName() + "{" + labelKey(l) + "}"
			switch {
			case m.Counter != nil:
				out[k] = strconv.FormatFloat(m.Counter.GetValue(), 'g', -1, 64)
			case m.Gauge != nil:
				out[k] = strconv.FormatFloat(m.Gauge.GetValue(), 'g', -1, 64)
			case m.Histogram != nil:
				out[k] = fmt.Sprintf("count=%d sum=%s", m.Histogram.GetSampleCount(), strconv.FormatFloat(m.Histogram.GetSampleSum(), 'g', -1, 64))
			}
		}
	}
	return out, nil
}

func runMetricsWL(e *Env) {
	s := e.S
	wl := e.WL
	s.MaxYield = 300000
	s.Focus = []string{"pkg/metric_storage/", "pkg/metric/"}
	s.Policy = simrt.RandomWalk
	s.SwitchDen = []int{3, 10, 40}[wl.Choose(3)]
	steer := e.CfgIs("steer", "1") // away from the known findings: integer counter values, no equal series in two groups
	conc := e.CfgIs("conc", "1")
	ctx, cancel := context.WithCancel(context.Background())
	var ms *metricstorage.MetricStorage
	ref := map[string]*refSeries{} // key name{labels}
	hooks := []string{"h1", "h2"}
	groups := []string{"g1", "g2", "g3"}
	gnames := []string{"ga", "gb"}
	vals := []string{"1", "2", "5", "0.5", "2.5", "0", "-3"}
	if steer {
		vals = []string{"1", "2", "5", "0", "7"}
	}
	shapes := []map[string]string{{}, {"a": "x"}, {"a": "y"}, {"a": "x", "b": "z"}, {"b": "w"}}
	type batch struct {
		Hook    string
		Text    string
		Invalid bool
		Desc    []string
	}
	genBatch := func(hook string, onlyGroups []string) batch {
		b := batch{Hook: hook}
		n := 1 + wl.Choose(5)
		invalidAt := -1
		if wl.Bias(1, 6) && onlyGroups == nil {
			invalidAt = wl.Choose(n)
		}
		var lines []string
		for i := 0; i < n; i++ {
			lbl := map[string]string{}
			for k, v := range shapes[wl.Choose(len(shapes))] {
				lbl[k] = v
			}
			var line string
			grouped := wl.Choose(3) != 0 || onlyGroups != nil
			if grouped {
				gs := groups
				if onlyGroups != nil {
					gs = onlyGroups
				}
				g := gs[wl.Choose(len(gs))]
				name := gnames[wl.Choose(len(gnames))]
				if steer {
					lbl["grp"] = g // a hook author keeping series of different groups apart
				}
				lj := canonJSON(lbl)
				switch wl.Choose(6) {
				case 0:
					line = fmt.Sprintf(`{"group":%q,"action":"expire"}`, g)
				case 1, 2:
					v := vals[wl.Choose(len(vals))]
					if strings.HasPrefix(v, "-") {
						v = "1"
					}
					// counters and gauges use different names (one name has one type in a registry)
					line = fmt.Sprintf(`{"group":%q,"name":%q,"action":"add","value":%s,"labels":%s}`, g, name+"_total", v, lj)
				default:
					v := vals[wl.Choose(len(vals))]
					if wl.Choose(2) == 0 {
						line = fmt.Sprintf(`{"group":%q,"name":%q,"action":"set","value":%s,"labels":%s}`, g, name, v, lj)
					} else {
						line = fmt.Sprintf(`{"group":%q,"name":%q,"set":%s,"labels":%s}`, g, name, v, lj)
					}
				}
			} else {
				// ungrouped: one label shape per name
				v := vals[wl.Choose(len(vals))]
				lv := []string{"x", "y"}[wl.Choose(2)]
				switch wl.Choose(4) {
				case 0:
					if strings.HasPrefix(v, "-") {
						v = "1"
					}
					line = fmt.Sprintf(`{"name":"ua_total","action":"add","value":%s,"labels":{"a":%q}}`, v, lv)
				case 1:
					if strings.HasPrefix(v, "-") {
						v = "1"
					}
					line = fmt.Sprintf(`{"name":"ua_total","add":%s,"labels":{"a":%q}}`, v, lv)
				case 2:
					line = fmt.Sprintf(`{"name":"ub","action":"set","value":%s,"labels":{"a":%q}}`, v, lv)
				default:
					line = fmt.Sprintf(`{"name":"uh","action":"observe","value":%s,"buckets":[1,5],"labels":{"a":%q}}`, v, lv)
				}
			}
			if i == invalidAt {
				b.Invalid = true
				line = []string{
					`{"name":"ub","action":"set","labels":{"a":"x"}}`,
					`{"name":"ub","action":"explode","value":1,"labels":{"a":"x"}}`,
					`{"name":"ub","set":1,"add":2,"labels":{"a":"x"}}`,
					`{"group":"g1","action":"observe","name":"gx","value":1}`,
					`{"action":"set","value":1}`,
					`{"group":"g1","name":"","action":"set","value":1}`,
					`{"name":"uh","action":"observe","value":1,"labels":{"a":"x"}}`,       // buckets are required for observe
					`{"name":"uh","action":"observe","buckets":[1,5],"labels":{"a":"x"}}`, // value is required
				}[wl.Choose(8)]
			}
			lines = append(lines, line)
		}
		b.Text = strings.Join(lines, "\n") + "\n"
		b.Desc = lines
		return b
	}
	applyRef := func(b batch) {
		ops, err := operation.MetricOperationsFromBytes([]byte(b.Text))
		if err != nil {
			return
		}
		mentioned := map[string]bool{}
		for _, op := range ops {
			if op.Group != "" {
				mentioned[op.Group] = true
			}
		}
		for k, sr := range ref {
			if sr.Group != "" && mentioned[sr.Group] {
				delete(ref, k)
			}
		}
		for _, op := range ops {
			lbl := map[string]string{"hook": b.Hook}
			for k, v := range op.Labels {
				lbl[k] = v
			}
			key := op.Name + "{" + labelKey(lbl) + "}"
			switch {
			case op.Group != "" && op.Action == "expire":
				for k, sr := range ref {
					if sr.Group == op.Group {
						delete(ref, k)
					}
				}
			case op.Action == "add" && op.Value != nil:
				if ref[key] == nil {
					ref[key] = &refSeries{Name: op.Name, Labels: labelKey(lbl)}
				}
				ref[key].Value += *op.Value
				ref[key].Group = op.Group
			case op.Action == "set" && op.Value != nil:
				if ref[key] == nil {
					ref[key] = &refSeries{Name: op.Name, Labels: labelKey(lbl)}
				}
				ref[key].Value = *op.Value
				ref[key].Group = op.Group
			case op.Action == "observe" && op.Value != nil:
				if ref[key] == nil {
					ref[key] = &refSeries{Name: op.Name, Labels: labelKey(lbl)}
				}
				ref[key].Value += *op.Value
				ref[key].Count++
			}
		}
	}
	refMap := func() map[string]string {
		out := map[string]string{}
		for k, sr := range ref {
			if sr.Name == "uh" {
				out[k] = fmt.Sprintf("count=%d sum=%s", sr.Count, strconv.FormatFloat(sr.Value, 'g', -1, 64))
			} else {
				out[k] = strconv.FormatFloat(sr.Value, 'g', -1, 64)
			}
		}
		return out
	}
	var history []string
	done := false
	bad := false
	compare := func(after string) {
		got, err := gatherMap(ms)
		if err != nil {
			e.Viol("C16", "G0", "gather-error", "Gather() fails after %s: %v", after, err)
			bad = true
			return
		}
		want := refMap()
		if fmt.Sprint(got) == fmt.Sprint(want) {
			return
		}
		bad = true
		sig := "registry-differs"
		var diffs []string
		keys := map[string]bool{}
		for k := range got {
			keys[k] = true
		}
		for k := range want {
			keys[k] = true
		}
		fractional, collide := false, false
		for _, k := range sortedKeys(keys) {
			if got[k] != want[k] {
				diffs = append(diffs, fmt.Sprintf("%s: registry %q, reference %q", k, got[k], want[k]))
				if strings.Contains(k, "_total") && fractionalAdd(history, k[:strings.Index(k, "{")]) {
					fractional = true
				}
			}
		}
		// the same series (name and labels) reported under two groups?
		seenGrp := map[string]string{}
		for _, h := range history {
			for _, ln := range strings.Split(h, "\n") {
				ops, err := operation.MetricOperationsFromBytes([]byte(ln))
				if err != nil || len(ops) != 1 || ops[0].Group == "" || ops[0].Name == "" {
					continue
				}
				sk := ops[0].Name + "{" + labelKey(ops[0].Labels) + "}"
				if g, ok := seenGrp[sk]; ok && g != ops[0].Group {
					collide = true
				}
				seenGrp[sk] = ops[0].Group
			}
		}
		switch {
		case fractional:
			sig = "fractional-counter-add"
		case collide:
			sig = "same-series-in-two-groups"
		}
		e.Viol("C16", "G1", sig, "after %s: %s", after, strings.Join(diffs, "; "))
	}
	simrt.GoNamed("boot", func() {
		ms = metricstorage.NewMetricStorage(ctx, "p_", true, log.NewNop())
		if !conc {
			n := 2 + wl.Choose(7)
			for i := 0; i < n && !bad; i++ {
				simrt.Yield("seq")
				b := genBatch(hooks[wl.Choose(len(hooks))], nil)
				ops, perr := operation.MetricOperationsFromBytes([]byte(b.Text))
				before, _ := gatherMap(ms)
				var err error
				if perr == nil {
					err = ms.SendBatch(ops, map[string]string{"hook": b.Hook})
				} else {
					err = perr
				}
				history = append(history, b.Text)
				if b.Invalid {
					simrt.Count("probe:invalid-batch")
					if err == nil {
						e.Viol("C16", "V1", "invalid-batch-accepted", "batch with an invalid operation was accepted: %v", b.Desc)
						bad = true
						break
					}
					after, _ := gatherMap(ms)
					if fmt.Sprint(before) != fmt.Sprint(after) {
						e.Viol("C16", "V2", "invalid-batch-partly-applied", "batch with an invalid operation changed the registry: %v", b.Desc)
						bad = true
					}
					continue
				}
				if err != nil {
					e.Viol("C16", "V3", "valid-batch-rejected", "valid batch rejected: %v: %v", b.Desc, err)
					bad = true
					break
				}
				applyRef(b)
				compare(fmt.Sprintf("batch %d of %s %v", i, b.Hook, b.Desc))
			}
			done = true
			return
		}
		// concurrent phase: disjoint groups per task, counters and grouped series only; a reader gathers meanwhile
		nw := 2 + wl.Choose(2)
		fin := 0
		var all []batch
		for w := 0; w < nw; w++ {
			w := w
			var mine []batch
			for i, n := 0, 1+wl.Choose(3); i < n; i++ {
				mine = append(mine, genBatch(hooks[w%2], []string{groups[w%len(groups)]}))
			}
			all = append(all, mine...)
			simrt.GoNamed("writer"+strconv.Itoa(w), func() {
				for _, b := range mine {
					simrt.Yield("w")
					ops, _ := operation.MetricOperationsFromBytes([]byte(b.Text))
					if err := ms.SendBatch(ops, map[string]string{"hook": b.Hook}); err != nil {
						e.Viol("C16", "V3", "valid-batch-rejected", "valid batch rejected: %v: %v", b.Desc, err)
					}
				}
				fin++
			})
		}
		simrt.GoNamed("reader", func() {
			for i := 0; i < 3; i++ {
				simrt.Yield("r")
				if _, err := gatherMap(ms); err != nil {
					e.Viol("C16", "G0", "gather-error", "concurrent Gather() fails: %v", err)
				}
			}
			fin++
		})
		simrt.BlockUntil("join", func() bool { return fin == nw+1 })
		// disjoint groups: the order between tasks does not matter, inside a task it is program order
		for _, b := range all {
			history = append(history, b.Text)
			applyRef(b)
		}
		simrt.Count("probe:concurrent-batches")
		compare("the concurrent phase")
		done = true
	})
	s.Arm()
	err := s.Run(func() bool { return len(s.Panics) > 0 || done })
	if err != nil {
		e.Out.Truncated = true
	}
	panicsToViolations(e, "C16")
	e.Out.NonTrivial = len(history) > 1
	if e.Detail {
		e.Out.Sample = map[string]any{"batches": history, "steer": steer, "concurrent": conc}
	}
	teardown(e, func() { cancel() })
}

// fractionalAdd: some add operation on that counter name carried a fractional value.
func fractionalAdd(history []string, name string) bool {
	for _, h := range history {
		ops, err := operation.MetricOperationsFromBytes([]byte(h))
		if err != nil {
			continue
		}
		for _, op := range ops {
			if op.Name == name && op.Action == "add" && op.Value != nil && *op.Value != float64(int64(*op.Value)) {
				return true
			}
		}
	}
	return false
}
