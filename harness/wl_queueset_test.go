package harness

// Queue-set level workload (C03, C17): the real TaskQueueSet with several queues and
// recording handlers; an events-handler-like task appending through DoWithLock, a
// metrics-like task calling Iterate periodically (both are what operator.go does),
// queues created while running. Oracles: no deadlock, one task at a time per queue,
// head first, order of arrival kept, queues independent, clean stop.

import (
	"context"
	"fmt"
	"strconv"
	"time"

	"github.com/deckhouse/deckhouse/pkg/log"

	metricstorage "github.com/flant/shell-operator/pkg/metric_storage"
	"github.com/flant/shell-operator/pkg/task"
	"github.com/flant/shell-operator/pkg/task/queue"
	simrt "verifsimrt"
)

func init() {
	register(&Workload{Name: "queueset", Run: runQueueSetWL})
	plans["C03"] = append([]Part{{WL: "queueset", Cfg: "prop=C03", Quick: 1500, Thor: 40000}}, plans["C03"]...)
}

type qsRec struct {
	Queue      string
	UID        string
	Start, End int64
	StartT     time.Duration
	EndT       time.Duration
	HeadAtCall string
}

func runQueueSetWL(e *Env) {
	s := e.S
	wl := e.WL
	prop := e.Cfg["prop"]
	if prop == "" {
		prop = "C03"
	}
	s.MaxYield = 600000
	s.MaxSim = time.Hour
	s.Focus = []string{"pkg/task/queue/"}
	if wl.Choose(2) == 0 {
		s.Policy = simrt.RandomWalk
		s.SwitchDen = []int{3, 10, 40}[wl.Choose(3)]
	} else {
		s.Policy = simrt.PCT
		sch := s.T.St("sched")
		for i, d := 0, wl.Choose(4); i < d; i++ {
			s.ChangePoints = append(s.ChangePoints, 1+sch.Choose(400))
		}
	}
	ctx, cancel := context.WithCancel(context.Background())
	nq := 2 + wl.Choose(2)
	names := []string{"main", "q1", "q2", "q3"}[:nq]
	var tqs *queue.TaskQueueSet
	var recs []*qsRec
	arrivals := map[string][]string{}
	arrivedAt := map[string]time.Duration{}
	inHandler := map[string]int{}
	nadded, nhandled := 0, 0
	slowQ := names[wl.Choose(nq)]
	slow := wl.Bias(1, 2)
	mkHandler := func(qn string) func(task.Task) queue.TaskResult {
		return func(t task.Task) queue.TaskResult {
			simrt.Yield("handler")
			r := &qsRec{Queue: qn, Start: e.Seq(), StartT: e.Since()}
			if st, ok := t.(*simTask); ok {
				r.UID = st.uid
			}
			if h := tqs.GetByName(qn).GetFirst(); h != nil {
				if st, ok := h.(*simTask); ok {
					r.HeadAtCall = st.uid
				}
			}
			inHandler[qn]++
			if inHandler[qn] > 1 {
				e.Viol(prop, "Q1", "overlap", "queue %q: two handlers run at the same time (task %s)", qn, r.UID)
			}
			recs = append(recs, r)
			d := time.Duration(wl.Choose(3)) * 50 * time.Millisecond
			if slow && qn == slowQ {
				d = time.Duration(1+wl.Choose(4)) * 20 * time.Second
			}
			if d > 0 {
				simrt.Sleep(d)
			}
			inHandler[qn]--
			r.End = e.Seq()
			r.EndT = e.Since()
			nhandled++
			return queue.TaskResult{Status: queue.Success}
		}
	}
	booted, addDone := false, false
	simrt.GoNamed("boot", func() {
		tqs = queue.NewTaskQueueSet()
		tqs.WithContext(ctx)
		tqs.WithMetricStorage(metricstorage.NewMetricStorage(ctx, "p", true, log.NewNop()))
		tqs.WithMainName("main")
		tqs.NewNamedQueue("main", mkHandler("main"))
		tqs.StartMain()
		// metrics-like reader: what ShellOperator.runMetrics does every 5 s
		simrt.GoNamed("metrics", func() {
			for i := 0; i < 2000; i++ {
				tqs.Iterate(func(q *queue.TaskQueue) { _ = q.Length() })
				if ctx.Err() != nil {
					return
				}
				simrt.Sleep(time.Duration(1+wl.Choose(3)) * 40 * time.Millisecond)
			}
		})
		// events-handler-like writer: what ManagerEventsHandler does for every event
		simrt.GoNamed("adder", func() {
			n := 4 + wl.Choose(10)
			for i := 0; i < n; i++ {
				simrt.Yield("adder")
				if wl.Bias(1, 3) {
					simrt.Sleep(time.Duration(1+wl.Choose(5)) * 30 * time.Millisecond)
				}
				qn := names[wl.Choose(nq)]
				nadded++
				uid := "u" + strconv.Itoa(nadded)
				bt := task.NewTask("T")
				bt.Id = uid
				t := &simTask{BaseTask: bt, uid: uid}
				tqs.DoWithLock(func(set *queue.TaskQueueSet) {
					if q := set.Queues[qn]; q != nil {
						q.AddLast(t)
						arrivals[qn] = append(arrivals[qn], uid)
						arrivedAt[uid] = e.Since()
					}
				})
			}
			addDone = true
		})
		// the other queues are created and started a little later (initAndStartHookQueues)
		for _, qn := range names[1:] {
			simrt.Yield("boot")
			tqs.NewNamedQueue(qn, mkHandler(qn))
			tqs.GetByName(qn).Start()
		}
		booted = true
	})
	s.Arm()
	err := s.Run(func() bool {
		if len(s.Panics) > 0 {
			return true
		}
		if !booted || !addDone {
			return false
		}
		for _, qn := range names {
			if q := tqs.GetByName(qn); q != nil && q.Length() > 0 {
				return false
			}
		}
		return true
	})
	if err != nil {
		e.Out.Truncated = true
	}
	panicsToViolations(e, prop)
	lockStarvation(e, prop)
	e.Out.NonTrivial = true
	if err == nil && len(s.Panics) == 0 {
		got := map[string][]string{}
		for _, r := range recs {
			got[r.Queue] = append(got[r.Queue], r.UID)
			if r.HeadAtCall != r.UID {
				e.Viol(prop, "Q2", "not-head", "queue %q: handler got task %s while the head was %s", r.Queue, r.UID, r.HeadAtCall)
			}
		}
		for _, qn := range names {
			if fmt.Sprint(got[qn]) != fmt.Sprint(arrivals[qn]) {
				e.Viol(prop, "Q3", "order", "queue %q handled %v, tasks were appended in order %v", qn, got[qn], arrivals[qn])
			}
		}
		// Q4: a task that arrived at an idle queue starts within a second of simulated time
		busyUntil := map[string]time.Duration{}
		endT := map[int64]time.Duration{}
		_ = endT
		for _, r := range recs {
			at := arrivedAt[r.UID]
			if at >= busyUntil[r.Queue] {
				if w := r.StartT - at; w > time.Second {
					e.Viol(prop, "Q4", "idle-queue-delayed", "queue %q was idle, task %s arrived at %v and started %v later (slow queue: %q)", r.Queue, r.UID, at, w, slowQ)
				}
			}
			busyUntil[r.Queue] = r.EndT
		}
		if slow {
			simrt.Count("probe:slow-queue-present")
		}
	}
	if e.Detail {
		var hs []string
		for _, r := range recs {
			hs = append(hs, fmt.Sprintf("%s:%s seq %d..%d t=%v", r.Queue, r.UID, r.Start, r.End, r.StartT))
		}
		e.Out.Sample = map[string]any{"queues": names, "appended": arrivals, "handled": hs, "slow_queue": slowQ}
	}
	teardown(e, func() { cancel() })
}
