package harness

// C02 (controller level, dense): the real HookController + kubernetesBindingsController +
// kubeEventsManager on SimAPIServer. A reader task does what Hook.Run does before every
// execution - UpdateSnapshots on a (combined) list of binding contexts - while a mutator
// keeps writing. Oracles S1 (each object once, ordered), S4 (identical inside one call),
// S5 (keys), S2 (only states the objects had), checked on every call.

import (
	"context"
	"fmt"
	"strconv"
	"time"

	"github.com/deckhouse/deckhouse/pkg/log"
	"github.com/flant/kube-client/fake"

	bctx "github.com/flant/shell-operator/pkg/hook/binding_context"
	"github.com/flant/shell-operator/pkg/hook/config"
	"github.com/flant/shell-operator/pkg/hook/controller"
	kem "github.com/flant/shell-operator/pkg/kube_events_manager"
	kemtypes "github.com/flant/shell-operator/pkg/kube_events_manager/types"
	metricstorage "github.com/flant/shell-operator/pkg/metric_storage"
	simrt "verifsimrt"
)

func init() {
	register(&Workload{Name: "snapshots", Run: runSnapshotsWL})
	plans["C02"] = append(plans["C02"], Part{WL: "snapshots", Cfg: "prop=C02", Quick: 2500, Thor: 60000})
}

func runSnapshotsWL(e *Env) {
	s := e.S
	wl := e.WL
	s.MaxYield = 600000
	s.MaxSim = time.Hour
	s.Focus = []string{"pkg/hook/controller/hook_controller.go", "pkg/hook/controller/kubernetes_bindings_controller.go", "pkg/kube_events_manager/monitor.go"}
	s.Policy = simrt.PCT
	sch := s.T.St("sched")
	for i, d := 0, 1+wl.Choose(3); i < d; i++ {
		s.ChangePoints = append(s.ChangePoints, 1+sch.Choose(e.CfgInt("k", 700)))
	}
	ctx, cancel := context.WithCancel(context.Background())
	fc := fake.NewFakeCluster(fake.ClusterVersionV119)
	api := NewAPIServer(e, fc)
	obs := NewObserver(e)
	api.Obs = obs
	api.ApplyNamespace("default", nil)
	api.ApplyNamespace("nsa", map[string]string{"env": "prod"})
	// hook configuration: k0 plain, k1 includes k0 (and sometimes itself), optional group
	h := &HookSpec{Path: "h.sh"}
	nb := 2 + wl.Choose(2)
	for i := 0; i < nb; i++ {
		b := KubeBinding{Name: "k" + strconv.Itoa(i), Kind: "Pod"}
		if wl.Choose(3) == 0 {
			b.NsNames = []string{"default"}
		}
		if i > 0 {
			for j := 0; j <= i; j++ {
				if wl.Choose(2) == 0 {
					b.IncludeSnapshots = append(b.IncludeSnapshots, "k"+strconv.Itoa(j)) // may include itself
				}
			}
		}
		if wl.Bias(1, 4) {
			b.Group = "g"
		}
		h.Kube = append(h.Kube, b)
	}
	hc0 := &config.HookConfig{}
	if err := hc0.LoadAndValidate([]byte(h.ConfigJSON())); err != nil {
		e.Out.Infra = "config: " + err.Error()
		return
	}
	nwrite := 0
	write := func() {
		nwrite++
		ns := []string{"default", "nsa"}[wl.Choose(2)]
		name := "p" + strconv.Itoa(wl.Choose(3))
		if wl.Choose(5) == 0 {
			api.Delete(gvrPods, ns, name)
		} else {
			api.Apply(gvrPods, mkObj("Pod", ns, name, nil, map[string]any{"data": map[string]any{"v": strconv.Itoa(nwrite)}}))
		}
	}
	if wl.Choose(3) == 0 { // mostly start from an empty cluster: the first read of a snapshot is empty
		write()
	}
	had := func(key string, rv uint64) bool {
		for _, w := range api.Log {
			if w.GVR == gvrPods && w.Obj.GetNamespace()+"/"+w.Obj.GetName() == key && w.RV == rv {
				return true
			}
		}
		return false
	}
	mutDone, readDone, booted := false, false, false
	calls := 0
	var samples []string
	simrt.GoNamed("boot", func() {
		kem.DefaultFactoryStore = kem.NewFactoryStore()
		mgr := kem.NewKubeEventsManager(ctx, fc.Client, log.NewNop())
		mgr.WithMetricStorage(metricstorage.NewMetricStorage(ctx, "p", true, log.NewNop()))
		hc := controller.NewHookController()
		hc.InitKubernetesBindings(hc0.OnKubernetesEvents, mgr, log.NewNop())
		var syncCtxs []bctx.BindingContext
		if err := hc.HandleEnableKubernetesBindings(func(info controller.BindingExecutionInfo) {
			syncCtxs = append(syncCtxs, info.BindingContext...)
		}); err != nil {
			e.Out.Infra = "enable: " + err.Error()
			booted, mutDone, readDone = true, true, true
			return
		}
		hc.UnlockKubernetesEvents()
		var evCtxs []bctx.BindingContext
		simrt.GoNamed("consumer", func() {
			for {
				select {
				case ev := <-mgr.Ch():
					simrt.Yield("consumer")
					hc.HandleKubeEvent(ev, func(info controller.BindingExecutionInfo) {
						evCtxs = append(evCtxs, info.BindingContext...)
					})
				case <-ctx.Done():
					return
				}
			}
		})
		s.Arm()
		simrt.GoNamed("mutator", func() {
			for i, n := 0, 4+wl.Choose(8); i < n; i++ {
				simrt.Yield("mut")
				if wl.Bias(1, 6) {
					simrt.Sleep(20 * time.Millisecond)
				}
				write()
			}
			mutDone = true
		})
		simrt.GoNamed("reader", func() {
			for i, n := 0, 3+wl.Choose(5); i < n; i++ {
				simrt.Yield("reader")
				if wl.Bias(1, 4) {
					simrt.Sleep(10 * time.Millisecond)
				}
				// a combined list of contexts, as taskHandleHookRun would pass
				var in []bctx.BindingContext
				for k, m := 0, 1+wl.Choose(4); k < m; k++ {
					if len(evCtxs) > 0 && wl.Choose(2) == 0 {
						in = append(in, evCtxs[wl.Choose(len(evCtxs))])
					} else {
						in = append(in, syncCtxs[wl.Choose(len(syncCtxs))])
					}
				}
				out := hc.UpdateSnapshots(in)
				calls++
				checkSnapshotCall(e, h, out, had)
				if e.Detail && len(samples) < 6 {
					samples = append(samples, describeCtxs(out))
				}
			}
			readDone = true
		})
		booted = true
	})
	err := s.Run(func() bool { return len(s.Panics) > 0 || (booted && mutDone && readDone) })
	if err != nil {
		e.Out.Truncated = true
	}
	panicsToViolations(e, "C02")
	lockStarvation(e, "C02")
	e.Out.NonTrivial = calls > 1
	if e.Detail {
		e.Out.Sample = map[string]any{"config": h.ConfigJSON(), "writes": describeWrites(api, 40), "update_snapshots_results": samples}
	}
	teardown(e, func() { cancel(); api.StopAll() })
}

func objKeyRV(o kemtypes.ObjectAndFilterResult) (string, uint64) {
	if o.Object == nil {
		return o.Metadata.ResourceId, 0
	}
	return o.Object.GetNamespace() + "/" + o.Object.GetName(), rvOf(o.Object)
}

func listOf(l []kemtypes.ObjectAndFilterResult) string {
	s := "["
	for i, o := range l {
		k, rv := objKeyRV(o)
		if i > 0 {
			s += " "
		}
		s += fmt.Sprintf("%s@%d", k, rv)
	}
	return s + "]"
}

func describeCtxs(cs []bctx.BindingContext) string {
	s := ""
	for _, c := range cs {
		s += fmt.Sprintf("{%s %s objects=%s", c.Binding, c.Type, listOf(c.Objects))
		for _, k := range sortedKeys(c.Snapshots) {
			s += fmt.Sprintf(" snap[%s]=%s", k, listOf(c.Snapshots[k]))
		}
		s += "} "
	}
	return s
}

func checkSnapshotCall(e *Env, h *HookSpec, out []bctx.BindingContext, had func(string, uint64) bool) {
	seen := map[string]string{}
	where := map[string]string{}
	check := func(binding, at string, l []kemtypes.ObjectAndFilterResult) {
		cur := listOf(l)
		if prev, ok := seen[binding]; ok && prev != cur {
			e.Viol("C02", "S4", "differs-within-execution", "snapshot of binding %s differs inside one UpdateSnapshots call: %s shows %s, %s shows %s; all: %s", binding, where[binding], prev, at, cur, describeCtxs(out))
		} else if !ok {
			seen[binding], where[binding] = cur, at
		}
		prevKey := ""
		keys := map[string]bool{}
		for _, o := range l {
			k, rv := objKeyRV(o)
			if keys[k] {
				e.Viol("C02", "S1", "duplicate", "%s: %s listed twice: %s", at, k, cur)
			}
			keys[k] = true
			if prevKey != "" && k < prevKey {
				e.Viol("C02", "S1", "order", "%s: not ordered by namespace/name: %s", at, cur)
			}
			prevKey = k
			if rv != 0 && !had(k, rv) {
				e.Viol("C02", "S2", "invented-state", "%s: %s@%d is not a state that object ever had", at, k, rv)
			}
		}
	}
	for i, c := range out {
		if c.Type == kemtypes.TypeSynchronization {
			check(c.Binding, fmt.Sprintf("context %d objects", i), c.Objects)
		}
		var kb *KubeBinding
		for j := range h.Kube {
			if h.Kube[j].Name == c.Binding {
				kb = &h.Kube[j]
			}
		}
		if kb != nil {
			want := expectedSnapshotKeys(h, kb.IncludeSnapshots, kb.Group)
			got := sortedKeys(c.Snapshots)
			if fmt.Sprint(got) != fmt.Sprint(want) {
				e.Viol("C02", "S5", "snapshot-keys", "context %d (%s): snapshots has keys %v, expected %v", i, c.Binding, got, want)
			}
		}
		for _, name := range sortedKeys(c.Snapshots) {
			check(name, fmt.Sprintf("context %d snapshots.%s", i, name), c.Snapshots[name])
		}
	}
}
