package harness

// C01 and C02 oracles at hook level (whole-operator runs).

import (
	"fmt"
	"k8s.io/apimachinery/pkg/labels"
	"sort"
	"strings"

	simrt "verifsimrt"
)

type snapList struct {
	Binding string // the kubernetes binding whose objects are listed
	Where   string
	List    []ObjRef
}

func listsOf(x *Exec) []snapList {
	var out []snapList
	for i, c := range x.Ctxs {
		if c.Type == "Synchronization" && c.HasObjects {
			out = append(out, snapList{c.Binding, fmt.Sprintf("context %d objects", i), c.Objects})
		}
		for name, l := range c.Snapshots {
			out = append(out, snapList{name, fmt.Sprintf("context %d snapshots.%s", i, name), l})
		}
	}
	return out
}

func listString(l []ObjRef) string {
	var p []string
	for _, o := range l {
		if o.HasObject {
			p = append(p, fmt.Sprintf("%s@%d", o.Key(), o.RV))
		} else {
			p = append(p, "filter:"+o.Filter)
		}
	}
	return "[" + strings.Join(p, " ") + "]"
}

func lastWriteSeq(api *APIServer) int64 {
	if len(api.Log) == 0 {
		return 0
	}
	return api.Log[len(api.Log)-1].Seq
}

// ---------------------------------------------------------------- C02

func oracleC02(r *OpRun) {
	api := r.o.API
	// resource versions every object ever had
	had := map[string]map[uint64]bool{}
	for _, w := range api.Log {
		k := w.GVR.Resource + "|" + w.Obj.GetNamespace() + "/" + w.Obj.GetName()
		if had[k] == nil {
			had[k] = map[uint64]bool{}
		}
		had[k][w.RV] = true
	}
	lastShown := map[string]uint64{} // queue|hook|binding|key -> rv
	lastQuiet := map[string]*Exec{}  // hook|binding -> last execution showing it after the last write
	lastQuietList := map[string][]ObjRef{}
	lw := lastWriteSeq(api)
	for _, x := range r.o.Execs {
		h := r.hookSpec(x.Hook)
		if h == nil {
			continue
		}
		q := r.queueOf(x)
		// S5: keys of snapshots
		for i, c := range x.Ctxs {
			if !c.HasSnaps {
				continue
			}
			b := r.sc.bind(x.Hook, c.Binding)
			if b == nil {
				continue
			}
			var want []string
			if b.Kube != nil {
				want = expectedSnapshotKeys(h, b.Kube.IncludeSnapshots, b.Kube.Group)
			} else {
				want = expectedSnapshotKeys(h, b.Sched.IncludeSnapshots, b.Sched.Group)
			}
			got := sortedKeys(c.Snapshots)
			if fmt.Sprint(got) != fmt.Sprint(want) {
				r.e.Viol("C02", "S5", "snapshot-keys", "execution #%d of %s, context %d (%s): snapshots has keys %v, expected %v (includeSnapshotsFrom plus kubernetes bindings of the group)", x.N, x.Hook, i, c.Binding, got, want)
			}
		}
		// S4: inside one execution the snapshot of a binding is identical everywhere
		seen := map[string]string{}
		seenWhere := map[string]string{}
		for _, l := range listsOf(x) {
			cj := canonJSON(rawList(l.List))
			if prev, ok := seen[l.Binding]; ok && prev != cj {
				r.e.Viol("C02", "S4", "differs-within-execution", "execution #%d of %s: snapshot of binding %s differs between %s %s and %s %s", x.N, x.Hook, l.Binding, seenWhere[l.Binding], listString(nil), l.Where, listString(l.List))
			} else if !ok {
				seen[l.Binding] = cj
				seenWhere[l.Binding] = l.Where
			}
		}
		for _, l := range listsOf(x) {
			b := r.sc.bind(x.Hook, l.Binding)
			if b == nil || b.Kube == nil {
				continue
			}
			kb := b.Kube
			// S1: each object once, order by namespace/name only
			keys := map[string]bool{}
			prev := ""
			for _, o := range l.List {
				if !o.HasObject {
					continue
				}
				k := o.Key()
				if keys[k] {
					r.e.Viol("C02", "S1", "duplicate", "execution #%d of %s, %s: object %s listed twice in %s", x.N, x.Hook, l.Where, k, listString(l.List))
				}
				keys[k] = true
				sk := o.NS + "\x00" + o.Name
				if prev != "" && sk < prev {
					r.e.Viol("C02", "S1", "order", "execution #%d of %s, %s: not ordered by namespace/name: %s", x.N, x.Hook, l.Where, listString(l.List))
				}
				prev = sk
				// S2: no invention
				hk := gvrOfKind(kb.Kind).Resource + "|" + k
				if !had[hk][o.RV] {
					r.e.Viol("C02", "S2", "invented-state", "execution #%d of %s, %s: %s@%d is not a state that object ever had", x.N, x.Hook, l.Where, k, o.RV)
				}
				// S2: no time travel within one queue
				if q != "" && q != "?" {
					lk := q + "|" + x.Hook + "|" + l.Binding + "|" + k
					if o.RV < lastShown[lk] {
						r.e.Viol("C02", "S2", "time-travel", "execution #%d of %s, %s: %s shown at @%d after it was shown at @%d in the same queue", x.N, x.Hook, l.Where, k, o.RV, lastShown[lk])
					}
					lastShown[lk] = o.RV
				}
			}
			if x.StartSeq > lw+1 {
				lastQuiet[x.Hook+"|"+l.Binding] = x
				lastQuietList[x.Hook+"|"+l.Binding] = l.List
			}
		}
	}
	// S3: once the cluster is quiet, what is shown equals the real cluster state
	if !r.quiet {
		return
	}
	for hb, x := range lastQuiet {
		parts := strings.SplitN(hb, "|", 2)
		b := r.sc.bind(parts[0], parts[1])
		if b == nil || b.Kube == nil || b.Kube.DropObjects {
			continue
		}
		// only executions that started well after the last delivery count as "quiet"
		if !r.startedAfterDrain(x) {
			continue
		}
		simrt.Count("probe:snapshot-checked-at-quiescence")
		want := matchingSet(r.o.API, b.Kube)
		got := map[string]uint64{}
		for _, o := range lastQuietList[hb] {
			got[o.Key()] = o.RV
		}
		mid := r.monitorOf(parts[0], parts[1])
		for k, o := range want {
			rv, ok := got[k]
			if !ok {
				sig := "missing-at-quiescence"
				if r.noInformerFor(mid, o.GetNamespace()) && r.e.S.Counters["fault:list-failed"] > 0 && b.Kube.NsLabel != nil {
					// the list of a namespace that appeared after start failed once; the namespace is never retried
					sig = "dynamic-namespace-list-failure-not-retried"
				}
				r.e.Viol("C02", "S3", sig, "execution #%d of %s: snapshot of %s lacks %s@%d which matches the binding in the quiet cluster; shown %s", x.N, parts[0], parts[1], k, rvOf(o), listString(lastQuietList[hb]))
			} else if rv != rvOf(o) {
				r.e.Viol("C02", "S3", "stale-at-quiescence", "execution #%d of %s: snapshot of %s shows %s@%d, the quiet cluster has @%d", x.N, parts[0], parts[1], k, rv, rvOf(o))
			}
		}
		for k, rv := range got {
			if _, ok := want[k]; !ok {
				sig := "ghost-at-quiescence"
				if r.onlyListed(mid, k) {
					sig = "two-list-gap"
				} else if b.Kube.NsLabel != nil && r.nsStoppedMatchingBeforeNsInformer(mid, b.Kube, strings.SplitN(k, "/", 2)[0]) {
					// same family one level up: the namespace was in the preliminary namespace list of
					// CreateInformers and stopped matching before the monitor's namespace informer was
					// started, which therefore never reports its removal
					sig = "namespace-two-list-gap"
				}
				r.e.Viol("C02", "S3", sig, "execution #%d of %s: snapshot of %s shows %s@%d which is not in the quiet cluster (or no longer matches)", x.N, parts[0], parts[1], k, rv)
			}
		}
	}
}

func rawList(l []ObjRef) []any {
	out := make([]any, 0, len(l))
	for _, o := range l {
		out = append(out, o.Raw)
	}
	return out
}

// startedAfterDrain: the execution started after every watch event of the history had been handled.
func (r *OpRun) startedAfterDrain(x *Exec) bool {
	last := int64(0)
	for _, ri := range r.obs.Order {
		for _, sh := range ri.Shown {
			if sh.Seq > last {
				last = sh.Seq
			}
		}
	}
	return x.StartSeq > last && x.StartSeq > lastWriteSeq(r.o.API)
}

// nsStoppedMatchingBeforeNsInformer: the namespace does not match the binding's label selector now, and the
// write that ended the match was acknowledged before the monitor's namespace informer made its own first list.
func (r *OpRun) nsStoppedMatchingBeforeNsInformer(mid string, b *KubeBinding, ns string) bool {
	sel := labels.SelectorFromSet(b.NsLabel)
	stopped := int64(0)
	matching := false
	for _, w := range r.o.API.Log {
		if w.GVR != gvrNS || w.Obj.GetName() != ns {
			continue
		}
		now := string(w.Type) != "DELETED" && sel.Matches(labels.Set(w.Obj.GetLabels()))
		if matching && !now {
			stopped = w.Seq
		}
		matching = now
	}
	if matching || stopped == 0 {
		return false
	}
	started, ok := r.obs.NsiStart[mid]
	if !ok {
		return true // never started
	}
	// the informer's own list: the first list of namespaces after its start
	first := int64(1 << 62)
	for _, l := range r.o.API.Lists {
		if l.GVR == gvrNS && l.Seq >= started && l.Seq < first {
			first = l.Seq
		}
	}
	return stopped < first
}

// noInformerFor: the monitor's current informer for that namespace never got its initial list.
func (r *OpRun) noInformerFor(mid, ns string) bool {
	// the monitor of a binding is created again when the task that enables the bindings is retried
	// (same monitor id): what counts is the informer created last for that namespace
	var last *riObs
	for _, ri := range r.obs.ByMonitor(mid) {
		if ri.NS == ns || ri.NS == "" {
			last = ri
		}
	}
	return last == nil || !last.loaded
}

// onlyListed: the informers of the monitor were shown the object only in their own initial list.
func (r *OpRun) onlyListed(mid, key string) bool {
	any := false
	for _, ri := range r.obs.ByMonitor(mid) {
		for _, sh := range ri.Shown {
			if sh.Key == key {
				any = true
				if sh.Type != "List" {
					return false
				}
			}
		}
	}
	return any
}

// ---------------------------------------------------------------- C01 (hook level)

type delivered struct {
	Seq  int64
	Type string
	Key  string
	RV   uint64
	Proj string
	Exec *Exec
}

func oracleC01(r *OpRun) {
	execs := append([]*Exec(nil), r.o.Execs...)
	sort.SliceStable(execs, func(i, j int) bool { return execs[i].StartSeq < execs[j].StartSeq })
	for _, h := range r.sc.Hooks {
		for bi := range h.Kube {
			b := &h.Kube[bi]
			mid := r.monitorOf(h.Path, b.Name)
			if mid == "" {
				continue
			}
			if b.Group != "" {
				r.oracleC01Group(h, b, mid, execs)
				continue
			}
			p := r.sc.proj(b.JqFilter)
			events := b.Events
			if events == nil {
				events = []string{"Added", "Modified", "Deleted"}
			}
			// the completed Synchronization step
			// (a successful delivery; a failed one only counts for a binding that allows failure and only when
			// the task was not run again - behind a head task that does not allow failure it is retried)
			var syncX *Exec
			var view []ObjRef
			for _, wantOK := range []bool{true, false} {
				for _, x := range execs {
					for _, c := range x.Ctxs {
						if c.Type == "Synchronization" && c.Binding == b.Name && x.Hook == h.Path && x.EndSeq != 0 && syncX == nil {
							if (wantOK && !x.Fail) || (!wantOK && x.Fail && b.AllowFailure) {
								syncX, view = x, c.Objects
							}
						}
					}
				}
			}
			// delivered Events (first occurrence of each context)
			seen := map[string]bool{}
			var dl []delivered
			for _, x := range execs {
				if x.Hook != h.Path {
					continue
				}
				for _, c := range x.Ctxs {
					if c.Type != "Event" || c.Binding != b.Name || c.Obj == nil {
						continue
					}
					id := ctxIdentity(c)
					if seen[id] {
						continue
					}
					seen[id] = true
					key := c.Obj.Key()
					if !c.Obj.HasObject {
						key = ""
					}
					dl = append(dl, delivered{Seq: x.StartSeq, Type: c.WatchEvent, Key: key, RV: c.Obj.RV, Proj: c.Obj.Filter, Exec: x})
					// O1: never before the Synchronization step completed
					if !b.NoSync {
						if syncX == nil || x.StartSeq < syncX.EndSeq {
							sn := 0
							if syncX != nil {
								sn = syncX.N
							}
							sig := "event-before-synchronization"
							if syncX == nil {
								// root cause known from C04/C06: the binding's Synchronization was combined behind a head
								// task that allows failure, the combined run failed and was dropped with all its contexts
								for _, y := range execs {
									if y.Hook != h.Path || !y.Fail || y.StartSeq > x.StartSeq {
										continue
									}
									for _, yc := range y.Ctxs {
										if yc.Type == "Synchronization" && yc.Binding == b.Name && r.headMayAllowFailure(y) {
											sig = "event-before-synchronization:combined-behind-allowFailure-head"
										}
									}
								}
							}
							r.e.Viol("C01", "O1", sig, "binding %s of %s: Event %s %s@%d handed to the hook in execution #%d before the Synchronization step (#%d) completed", b.Name, h.Path, c.WatchEvent, key, c.Obj.RV, x.N, sn)
						}
					}
				}
			}
			if b.DropObjects {
				continue // Events carry no object identity; covered at monitor level
			}
			// demanded emissions per object
			exp := map[string][]emission{}
			shownBy := map[string][]shownRec{}
			for _, ri := range r.obs.ByMonitor(mid) {
				es, _ := refEmissions(ri.Shown, events, p)
				for _, em := range es {
					exp[em.Key] = append(exp[em.Key], em)
				}
				for _, sh := range ri.Shown {
					shownBy[sh.Key] = append(shownBy[sh.Key], sh)
				}
			}
			for k := range exp {
				sort.SliceStable(exp[k], func(i, j int) bool { return exp[k][i].Seq < exp[k][j].Seq })
			}
			got := map[string][]delivered{}
			for _, d := range dl {
				got[d.Key] = append(got[d.Key], d)
			}
			describe := func(k string) string {
				var g []string
				for _, d := range got[k] {
					g = append(g, fmt.Sprintf("%s@%d(#%d)", d.Type, d.RV, d.Exec.N))
				}
				return fmt.Sprintf("object %s: demanded %s, delivered [%s]", k, emissionsString(exp[k]), strings.Join(g, ", "))
			}
			same := func(d delivered, em emission) bool { return d.Type == em.Type && d.RV == em.RV }
			for k, ds := range got {
				j := 0
				for _, d := range ds {
					for j < len(exp[k]) && !same(d, exp[k][j]) {
						j++
					}
					if j >= len(exp[k]) {
						r.e.Viol("C01", "O2", "order-or-invention", "binding %s of %s: Event %s %s@%d is not a demanded change at this position; %s", b.Name, h.Path, d.Type, d.Key, d.RV, describe(k))
						break
					}
					j++
				}
			}
			if !r.quiet || syncX == nil || b.NoSync {
				continue
			}
			// second reader while locked?
			r2during := r.secondReaderDuringSync(mid, syncX)
			if r2during {
				simrt.Count("probe:second-reader-while-sync-running")
			}
			viewBy := map[string]ObjRef{}
			for _, o := range view {
				viewBy[o.Key()] = o
			}
			for k, es := range exp {
				vs, inView := viewBy[k]
				cut := int64(-1)
				found := !inView
				if !inView {
					cut = 0
				}
				for _, x := range shownBy[k] {
					if x.Seq > syncX.StartSeq {
						break
					}
					switch {
					case inView && x.Type != "Deleted" && vs.RV == x.RV:
						cut, found = x.Seq, true
					case !inView && x.Type == "Deleted":
						cut = x.Seq
					}
				}
				if !found {
					r.e.Viol("C02", "S2", "view-shows-unknown-state", "binding %s of %s: Synchronization shows %s@%d which its informer had not been shown before the hook started", b.Name, h.Path, k, vs.RV)
					continue
				}
				var owed []emission
				for _, em := range es {
					if em.Seq > cut {
						owed = append(owed, em)
					}
				}
				ds := got[k]
				ok := len(owed) <= len(ds)
				if ok {
					tail := ds[len(ds)-len(owed):]
					for i := range owed {
						if !same(tail[i], owed[i]) {
							ok = false
						}
					}
				}
				if !ok {
					sig := "lost-event"
					if r2during {
						sig = "second-reader-during-sync"
					} else if b.NsLabel != nil && r.e.S.Counters["fault:list-failed"] > 0 && r.noInformerFor(mid, strings.SplitN(k, "/", 2)[0]) {
						// the list of that namespace failed for the monitor in use and is never retried (known
						// finding); the change was shown to an informer of a monitor instance that had been replaced
						sig = "dynamic-namespace-list-failure-not-retried"
					}
					vw := "(absent)"
					if inView {
						vw = fmt.Sprintf("%s@%d", k, vs.RV)
					}
					r.e.Viol("C01", "O4", sig, "binding %s of %s: Synchronization (#%d) showed %s; changes after it are owed %s; %s", b.Name, h.Path, syncX.N, vw, emissionsString(owed), describe(k))
				}
			}
			// O3 convergence
			if len(events) == 3 {
				model := map[string]uint64{}
				for _, o := range view {
					model[o.Key()] = o.RV
				}
				for _, d := range dl {
					if d.Type == "Deleted" {
						delete(model, d.Key)
					} else {
						model[d.Key] = d.RV
					}
				}
				final := matchingSet(r.o.API, b)
				for k, o := range final {
					mrv, ok := model[k]
					switch {
					case !ok:
						sig := "missing-object"
						if r.noInformerFor(mid, o.GetNamespace()) && r.e.S.Counters["fault:list-failed"] > 0 && b.NsLabel != nil {
							sig = "dynamic-namespace-list-failure-not-retried"
						} else if sh := shownBy[k]; len(sh) > 0 && sh[0].Type == "List" && sh[0].Seq > syncX.StartSeq {
							sig = "object-present-when-namespace-informer-started"
						} else if r2during {
							sig = "second-reader-during-sync"
						}
						r.e.Viol("C01", "O3", sig, "binding %s of %s: final cluster has %s@%d but Synchronization+Events have no such object; %s", b.Name, h.Path, k, rvOf(o), describe(k))
					case b.JqFilter == "" && mrv != rvOf(o):
						sig := "stale-object"
						if r2during {
							sig = "second-reader-during-sync"
						}
						r.e.Viol("C01", "O3", sig, "binding %s of %s: final cluster has %s@%d but Synchronization+Events end at @%d; %s", b.Name, h.Path, k, rvOf(o), mrv, describe(k))
					}
				}
				for k := range model {
					if _, ok := final[k]; !ok {
						sig := "ghost-object"
						if r.onlyListed(mid, k) {
							sig = "two-list-gap"
						} else if r2during {
							sig = "second-reader-during-sync"
						}
						r.e.Viol("C01", "O3", sig, "binding %s of %s: Synchronization+Events keep %s which is not in the final cluster; %s", b.Name, h.Path, k, describe(k))
					}
				}
			}
		}
	}
}

// secondReaderDuringSync: some snapshot read of the binding other than the Synchronization run's
// own one happened after that read and before the unlock.
func (r *OpRun) secondReaderDuringSync(mid string, syncX *Exec) bool {
	for _, ri := range r.obs.ByMonitor(mid) {
		own := int64(-1)
		for _, s := range ri.Snapshots {
			if s < syncX.StartSeq && s > own {
				own = s
			}
		}
		unlock := int64(1 << 62)
		for _, u := range ri.Unlocks {
			if u > syncX.EndSeq && u < unlock {
				unlock = u
			}
		}
		for _, s := range ri.Snapshots {
			if s > own && own >= 0 && s < unlock {
				return true
			}
		}
	}
	return false
}

// O5: for a binding with a group, every change is followed by a Group execution whose snapshots reflect it.
func (r *OpRun) oracleC01Group(h *HookSpec, b *KubeBinding, mid string, execs []*Exec) {
	if !r.quiet || b.DropObjects {
		return
	}
	events := b.Events
	if events == nil {
		events = []string{"Added", "Modified", "Deleted"}
	}
	p := r.sc.proj(b.JqFilter)
	unlocked := int64(1 << 62)
	for _, ri := range r.obs.ByMonitor(mid) {
		for _, u := range ri.Unlocks {
			if u < unlocked {
				unlocked = u
			}
		}
	}
	// the last demanded change per object after the unlock
	lastEm := map[string]emission{}
	for _, ri := range r.obs.ByMonitor(mid) {
		es, _ := refEmissions(ri.Shown, events, p)
		for _, em := range es {
			if em.Seq > unlocked {
				if cur, ok := lastEm[em.Key]; !ok || em.Seq > cur.Seq {
					lastEm[em.Key] = em
				}
			}
		}
	}
	if len(lastEm) == 0 {
		return
	}
	simrt.Count("probe:group-binding-with-change")
	for k, em := range lastEm {
		// a successful Group execution that started after the change and reflects it
		ok := false
		lastN := 0
		for _, x := range execs {
			if x.Hook != h.Path || x.Fail || x.StartSeq < em.Seq {
				continue
			}
			for _, c := range x.Ctxs {
				if c.Type != "Group" {
					continue
				}
				l, has := c.Snapshots[b.Name]
				if !has {
					continue
				}
				lastN = x.N
				present := false
				for _, o := range l {
					if o.Key() == k {
						present = true
						if em.Type != "Deleted" && o.RV >= em.RV {
							ok = true
						}
					}
				}
				if em.Type == "Deleted" && !present {
					ok = true
				}
				if em.Type != "Deleted" && !present && r.deletedLater(gvrOfKind(b.Kind).Resource, k, em.RV) {
					ok = true // the snapshot already shows a later state: the object is gone again
				}
				// a later re-creation supersedes a deletion: the snapshot shows a newer state of the object
				if em.Type == "Deleted" {
					for _, o := range l {
						if o.Key() == k && o.RV > em.RV {
							ok = true
						}
					}
				}
			}
		}
		if !ok {
			if b.AllowFailure {
				continue // its Group execution may have failed and been dropped
			}
			if r.headAllowsFailureSomewhere(h) {
				continue // may have been combined behind an allowFailure head and dropped (C04 known finding)
			}
			r.e.Viol("C01", "O5", "change-not-reflected-by-group-execution", "binding %s (group %s) of %s: change %s is not followed by a successful Group execution whose snapshots reflect it (last Group execution with that snapshot: #%d)", b.Name, b.Group, h.Path, em.String(), lastN)
		}
	}
}

func (r *OpRun) deletedLater(resource, key string, rv uint64) bool {
	for _, w := range r.o.API.Log {
		if w.GVR.Resource == resource && w.Obj.GetNamespace()+"/"+w.Obj.GetName() == key && w.RV > rv && string(w.Type) == "DELETED" {
			return true
		}
	}
	return false
}

// headAllowsFailureSomewhere: the hook has some binding that allows failure.
func (r *OpRun) headAllowsFailureSomewhere(h *HookSpec) bool {
	for _, kb := range h.Kube {
		if kb.AllowFailure {
			return true
		}
	}
	for _, sb := range h.Sched {
		if sb.AllowFailure {
			return true
		}
	}
	return false
}

func (r *OpRun) firstShown(mid, key string) *shownRec {
	var best *shownRec
	for _, ri := range r.obs.ByMonitor(mid) {
		for i := range ri.Shown {
			if ri.Shown[i].Key == key && (best == nil || ri.Shown[i].Seq < best.Seq) {
				best = &ri.Shown[i]
			}
		}
	}
	return best
}
