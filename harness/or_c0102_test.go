package harness

// placeholders filled in below (C01 and C02 oracles at hook level)
func oracleC02(r *OpRun) {}
func oracleC01(r *OpRun) {}
