// instr: type-directed source rewriter producing a `go build -overlay` file.
// See DESIGN.md 3.1 for the rewrite rules.
package main

import (
	"bytes"
	"encoding/json"
	"flag"
	"fmt"
	"go/ast"
	"go/printer"
	"go/parser"
	"go/token"
	"go/types"
	"os"
	"path/filepath"
	"sort"
	"strconv"
	"strings"

	"golang.org/x/tools/go/ast/astutil"
	"golang.org/x/tools/go/packages"
)

const modPath = "github.com/flant/shell-operator"
const rtPath = "verifsimrt"
const rtName = "zzsimrt"

type Directives struct {
	Packages []string          `json:"packages"` // relative to module, e.g. pkg/task/queue
	Stubs    []string          `json:"stubs"`    // pkgpath.(*Recv).Name or pkgpath.Name
	Enters   map[string]string `json:"enters"`   // func id -> key expression (Go source)
	Observes map[string]string `json:"observes"` // func id -> argument list (Go source) of an inserted zzsimrt.Observe(...) call
	SkipFile []string          `json:"skipFiles"`
}

var (
	repo    = flag.String("repo", "/repo", "repository root")
	out     = flag.String("out", "", "scratch output dir")
	dirFile = flag.String("directives", "", "directives json")
	rtDir   = flag.String("rt", "", "directory with zzsimrt sources")
	extra   = flag.String("extra", "", "dir tree of extra files to add (relative to repo root)")
	mutate  = flag.String("mutate", "", "comma separated list of <repo-relative file>=<patched copy>: instrument the patched text instead (sensitivity self-test; /repo is not touched)")
)

func main() {
	flag.Parse()
	var d Directives
	b, err := os.ReadFile(*dirFile)
	check(err)
	check(json.Unmarshal(b, &d))

	patterns := []string{}
	for _, p := range d.Packages {
		patterns = append(patterns, "./"+p)
	}
	cfg := &packages.Config{
		Mode: packages.NeedName | packages.NeedFiles | packages.NeedCompiledGoFiles | packages.NeedSyntax | packages.NeedTypes | packages.NeedTypesInfo | packages.NeedImports | packages.NeedDeps,
		Dir:  *repo,
		ParseFile: func(fset *token.FileSet, filename string, src []byte) (*ast.File, error) {
			return parser.ParseFile(fset, filename, src, parser.ParseComments)
		},
	}
	if *mutate != "" {
		cfg.Overlay = map[string][]byte{}
		for _, kv := range strings.Split(*mutate, ",") {
			i := strings.IndexByte(kv, '=')
			if i < 0 {
				check(fmt.Errorf("bad -mutate entry %q", kv))
			}
			data, err := os.ReadFile(kv[i+1:])
			check(err)
			cfg.Overlay[filepath.Join(*repo, kv[:i])] = data
		}
	}
	pkgs, err := packages.Load(cfg, patterns...)
	check(err)
	instrumented := map[string]bool{}
	for _, p := range pkgs {
		instrumented[p.PkgPath] = true
	}
	overlay := map[string]string{}
	stubUsed := map[string]bool{}
	enterUsed := map[string]bool{}
	observeUsed := map[string]bool{}
	nYield, nFiles := 0, 0
	for _, p := range pkgs {
		if len(p.Errors) > 0 {
			for _, e := range p.Errors {
				fmt.Fprintln(os.Stderr, "load error:", e)
			}
			os.Exit(2)
		}
		for i, f := range p.Syntax {
			fn := p.CompiledGoFiles[i]
			if strings.HasSuffix(fn, "_mock.go") || skip(fn, d.SkipFile) {
				continue
			}
			rw := &rewriter{pkg: p, file: f, fset: p.Fset, d: &d, instrumented: instrumented, stubUsed: stubUsed, enterUsed: enterUsed, observeUsed: observeUsed}
			rw.run()
			nYield += rw.nYield
			var buf bytes.Buffer
			pcfg := printer.Config{Mode: printer.SourcePos | printer.UseSpaces | printer.TabIndent, Tabwidth: 8}
			if err := pcfg.Fprint(&buf, p.Fset, f); err != nil {
				fmt.Fprintln(os.Stderr, "format:", fn, err)
				os.Exit(2)
			}
			rel, _ := filepath.Rel(*repo, fn)
			dst := filepath.Join(*out, "src", rel)
			check(os.MkdirAll(filepath.Dir(dst), 0o755))
			check(os.WriteFile(dst, buf.Bytes(), 0o644))
			overlay[fn] = dst
			nFiles++
		}
	}
	for _, s := range d.Stubs {
		if !stubUsed[s] {
			fmt.Fprintln(os.Stderr, "directive error: stub target not found:", s)
			os.Exit(2)
		}
	}
	for s := range d.Enters {
		if !enterUsed[s] {
			fmt.Fprintln(os.Stderr, "directive error: enter target not found:", s)
			os.Exit(2)
		}
	}
	for s := range d.Observes {
		if !observeUsed[s] {
			fmt.Fprintln(os.Stderr, "directive error: observe target not found:", s)
			os.Exit(2)
		}
	}
	if *extra != "" {
		filepath.Walk(*extra, func(path string, info os.FileInfo, err error) error {
			if err == nil && !info.IsDir() && strings.HasSuffix(path, ".go") {
				rel, _ := filepath.Rel(*extra, path)
				overlay[filepath.Join(*repo, rel)] = path
			}
			return nil
		})
	}
	ob, _ := json.MarshalIndent(map[string]any{"Replace": overlay}, "", " ")
	check(os.WriteFile(filepath.Join(*out, "overlay.json"), ob, 0o644))
	fmt.Printf("instr: %d files, %d yield points, %d overlay entries\n", nFiles, nYield, len(overlay))
}

func skip(fn string, pats []string) bool {
	for _, p := range pats {
		if strings.HasSuffix(fn, p) {
			return true
		}
	}
	return false
}

func check(err error) {
	if err != nil {
		fmt.Fprintln(os.Stderr, "instr:", err)
		os.Exit(2)
	}
}

type rewriter struct {
	pkg          *packages.Package
	file         *ast.File
	fset         *token.FileSet
	d            *Directives
	instrumented map[string]bool
	stubUsed     map[string]bool
	enterUsed    map[string]bool
	observeUsed  map[string]bool
	nYield       int
	needRT       bool
	tmp          int
}

func (r *rewriter) site(pos token.Pos) string {
	p := r.fset.Position(pos)
	rel, _ := filepath.Rel(*repo, p.Filename)
	return rel + ":" + strconv.Itoa(p.Line)
}

func (r *rewriter) rtCall(fn string, args ...ast.Expr) *ast.CallExpr {
	r.needRT = true
	return &ast.CallExpr{Fun: &ast.SelectorExpr{X: ast.NewIdent(rtName), Sel: ast.NewIdent(fn)}, Args: args}
}

func strLit(s string) ast.Expr { return &ast.BasicLit{Kind: token.STRING, Value: strconv.Quote(s)} }

func (r *rewriter) yieldStmt(pos token.Pos) ast.Stmt {
	r.nYield++
	return &ast.ExprStmt{X: r.rtCall("Yield", strLit(r.site(pos)))}
}

func (r *rewriter) funcID(fd *ast.FuncDecl) string {
	id := r.pkg.PkgPath + "."
	if fd.Recv != nil && len(fd.Recv.List) > 0 {
		t := fd.Recv.List[0].Type
		star := ""
		if s, ok := t.(*ast.StarExpr); ok {
			star = "*"
			t = s.X
		}
		if ix, ok := t.(*ast.IndexExpr); ok {
			t = ix.X
		}
		if idn, ok := t.(*ast.Ident); ok {
			id += "(" + star + idn.Name + ")."
		}
	}
	return id + fd.Name.Name
}

func (r *rewriter) run() {
	// Pass A: function-level directives (stubs, enters) and closures named F$n.
	for _, decl := range r.file.Decls {
		fd, ok := decl.(*ast.FuncDecl)
		if !ok || fd.Body == nil {
			continue
		}
		id := r.funcID(fd)
		for _, s := range r.d.Stubs {
			if s == id {
				r.stubUsed[s] = true
				fd.Body = r.zeroReturnBody(fd.Type)
			}
		}
	}
	// Comments: keep only those before the package clause and //go: directives;
	// positions of inserted nodes would otherwise misplace them.
	var kept []*ast.CommentGroup
	for _, cg := range r.file.Comments {
		if cg.End() < r.file.Package {
			kept = append(kept, cg)
			continue
		}
		for _, c := range cg.List {
			if strings.HasPrefix(c.Text, "//go:") {
				kept = append(kept, &ast.CommentGroup{List: []*ast.Comment{c}})
			}
		}
	}
	r.file.Comments = kept
	// Pass B: expression/type level rewrites (pre-order), statement list rewrites (post-order).
	astutil.Apply(r.file, r.pre, r.post)
	// Pass C: enters (after yields so Enter is first).
	for _, decl := range r.file.Decls {
		fd, ok := decl.(*ast.FuncDecl)
		if !ok || fd.Body == nil {
			continue
		}
		id := r.funcID(fd)
		if args, ok := r.d.Observes[id]; ok {
			r.observeUsed[id] = true
			r.prependObserve(fd.Body, r.bindPositional(fd, args))
		}
		if key, ok := r.d.Enters[id]; ok {
			r.enterUsed[id] = true
			r.prependEnter(fd.Body, key)
		}
		// closures: id$1, id$2 ...
		n := 0
		ast.Inspect(fd.Body, func(nd ast.Node) bool {
			if fl, ok := nd.(*ast.FuncLit); ok {
				n++
				cid := id + "$" + strconv.Itoa(n)
				if key, ok := r.d.Enters[cid]; ok {
					r.enterUsed[cid] = true
					r.prependEnter(fl.Body, key)
				}
			}
			return true
		})
	}
	if r.needRT {
		astutil.AddNamedImport(r.fset, r.file, rtName, rtPath)
	}
	// drop imports orphaned by the rewrites (syntactic check on the rewritten tree)
	usedNames := map[string]bool{}
	ast.Inspect(r.file, func(n ast.Node) bool {
		if sel, ok := n.(*ast.SelectorExpr); ok {
			if id, ok := sel.X.(*ast.Ident); ok {
				usedNames[id.Name] = true
			}
		}
		return true
	})
	type imp struct{ name, path string }
	var drop []imp
	for _, is := range r.file.Imports {
		path, _ := strconv.Unquote(is.Path.Value)
		local := ""
		if is.Name != nil {
			local = is.Name.Name
		} else if pn, ok := r.pkg.TypesInfo.Implicits[is].(*types.PkgName); ok {
			local = pn.Name()
		}
		if local == "_" || local == "." || local == "" {
			continue
		}
		if !usedNames[local] {
			named := ""
			if is.Name != nil {
				named = is.Name.Name
			}
			drop = append(drop, imp{named, path})
		}
	}
	for _, d := range drop {
		if d.name != "" {
			astutil.DeleteNamedImport(r.fset, r.file, d.name, d.path)
		} else {
			astutil.DeleteImport(r.fset, r.file, d.path)
		}
	}
}

func usesImport(f *ast.File, p *packages.Package, path string) bool {
	used := false
	ast.Inspect(f, func(n ast.Node) bool {
		if sel, ok := n.(*ast.SelectorExpr); ok {
			if id, ok := sel.X.(*ast.Ident); ok {
				if pn, ok := p.TypesInfo.Uses[id].(*types.PkgName); ok && pn.Imported().Path() == path {
					used = true
				}
			}
		}
		return true
	})
	return used
}

// positional placeholders in observe directives: $0 is the receiver, $1.. the parameters in order
// (robust against renamed parameters); blank or unnamed ones get a generated name.
func (r *rewriter) bindPositional(fd *ast.FuncDecl, args string) string {
	if !strings.Contains(args, "$") {
		return args
	}
	var names []string
	gen := 0
	take := func(fl *ast.FieldList) {
		if fl == nil {
			return
		}
		for _, f := range fl.List {
			if len(f.Names) == 0 {
				gen++
				id := ast.NewIdent(fmt.Sprintf("zzp%d", gen))
				f.Names = []*ast.Ident{id}
				names = append(names, id.Name)
				continue
			}
			for _, n := range f.Names {
				if n.Name == "_" {
					gen++
					n.Name = fmt.Sprintf("zzp%d", gen)
				}
				names = append(names, n.Name)
			}
		}
	}
	if fd.Recv != nil {
		take(fd.Recv)
	} else {
		names = append(names, "nil")
	}
	take(fd.Type.Params)
	for i := len(names) - 1; i >= 0; i-- {
		args = strings.ReplaceAll(args, "$"+strconv.Itoa(i), names[i])
	}
	return args
}

func (r *rewriter) prependObserve(body *ast.BlockStmt, args string) {
	e, err := parser.ParseExpr("f(" + args + ")")
	if err != nil {
		fmt.Fprintln(os.Stderr, "directive error: bad observe args", args, err)
		os.Exit(2)
	}
	call := r.rtCall("Observe", e.(*ast.CallExpr).Args...)
	body.List = append([]ast.Stmt{&ast.ExprStmt{X: call}}, body.List...)
}

func (r *rewriter) prependEnter(body *ast.BlockStmt, keyExpr string) {
	e, err := parser.ParseExpr(keyExpr)
	if err != nil {
		fmt.Fprintln(os.Stderr, "directive error: bad key expr", keyExpr, err)
		os.Exit(2)
	}
	enter := &ast.ExprStmt{X: r.rtCall("Enter", e)}
	leave := &ast.DeferStmt{Call: r.rtCall("Leave")}
	body.List = append([]ast.Stmt{enter, leave}, body.List...)
}

func (r *rewriter) zeroReturnBody(ft *ast.FuncType) *ast.BlockStmt {
	b := &ast.BlockStmt{}
	if ft.Results == nil {
		return b
	}
	ret := &ast.ReturnStmt{}
	i := 0
	for _, f := range ft.Results.List {
		n := len(f.Names)
		if n == 0 {
			n = 1
		}
		for j := 0; j < n; j++ {
			name := fmt.Sprintf("zzr%d", i)
			i++
			b.List = append(b.List, &ast.DeclStmt{Decl: &ast.GenDecl{Tok: token.VAR, Specs: []ast.Spec{&ast.ValueSpec{Names: []*ast.Ident{ast.NewIdent(name)}, Type: f.Type}}}})
			ret.Results = append(ret.Results, ast.NewIdent(name))
		}
	}
	// named results: clear names to avoid redeclare confusion
	for _, f := range ft.Results.List {
		f.Names = nil
	}
	b.List = append(b.List, ret)
	return b
}

var syncTypes = map[string]bool{"Mutex": true, "RWMutex": true, "Once": true, "Map": true}

func (r *rewriter) pkgOf(id *ast.Ident) string {
	if pn, ok := r.pkg.TypesInfo.Uses[id].(*types.PkgName); ok {
		return pn.Imported().Path()
	}
	return ""
}

func (r *rewriter) pre(c *astutil.Cursor) bool {
	switch n := c.Node().(type) {
	case *ast.ImportSpec:
		p, _ := strconv.Unquote(n.Path.Value)
		switch p {
		case "math/rand/v2":
			n.Path.Value = strconv.Quote(rtPath + "/simrand2")
			if n.Name == nil {
				n.Name = ast.NewIdent("rand")
			}
		case "math/rand":
			n.Path.Value = strconv.Quote(rtPath + "/simrand1")
			if n.Name == nil {
				n.Name = ast.NewIdent("rand")
			}
		}
	case *ast.SelectorExpr:
		if id, ok := n.X.(*ast.Ident); ok && r.pkgOf(id) == "sync" && syncTypes[n.Sel.Name] {
			c.Replace(&ast.SelectorExpr{X: ast.NewIdent(rtName), Sel: ast.NewIdent(n.Sel.Name)})
			r.needRT = true
			return false
		}
	case *ast.CallExpr:
		if sel, ok := n.Fun.(*ast.SelectorExpr); ok {
			if s, ok := r.pkg.TypesInfo.Selections[sel]; ok && s.Kind() == types.MethodVal {
				if fn, ok := s.Obj().(*types.Func); ok && fn.Pkg() != nil && fn.Pkg().Path() == "os/exec" {
					recv := s.Recv().String()
					if strings.HasSuffix(recv, "os/exec.Cmd") {
						switch fn.Name() {
						case "Run", "Output", "CombinedOutput", "Start", "Wait":
							c.Replace(r.rtCall("Cmd"+fn.Name(), sel.X))
							return true
						}
					}
				}
			}
		}
	}
	return true
}

// post handles statement lists: yields, go statements, map ranges.
func (r *rewriter) post(c *astutil.Cursor) bool {
	switch n := c.Node().(type) {
	case *ast.BlockStmt:
		n.List = r.rewriteList(n.List, false)
	case *ast.CaseClause:
		n.Body = r.rewriteList(n.Body, false)
	case *ast.CommClause:
		n.Body = r.rewriteList(n.Body, true)
		if len(n.Body) == 0 || !isYield(n.Body[0]) {
			n.Body = append([]ast.Stmt{r.yieldStmt(n.Pos())}, n.Body...)
		}
	case *ast.SelectStmt:
		if _, labeled := c.Parent().(*ast.LabeledStmt); labeled {
			return true
		}
		if blk := r.rewriteSelect(n); blk != nil {
			c.Replace(blk)
		}
	}
	return true
}

// rewriteSelect implements R9: ready clauses are tried in a tape-chosen order.
func (r *rewriter) rewriteSelect(sel *ast.SelectStmt) ast.Stmt {
	var comm []*ast.CommClause
	var def *ast.CommClause
	for _, st := range sel.Body.List {
		cc := st.(*ast.CommClause)
		if cc.Comm == nil {
			def = cc
		} else {
			comm = append(comm, cc)
		}
	}
	if len(comm) < 2 {
		return nil
	}
	r.tmp++
	id := r.tmp
	name := func(prefix string, i int) *ast.Ident { return ast.NewIdent(fmt.Sprintf("zz%s%d_%d", prefix, id, i)) }
	fired := ast.NewIdent(fmt.Sprintf("zzfired%d", id))
	blk := &ast.BlockStmt{Lbrace: sel.Pos()}
	define := func(lhs ast.Expr, rhs ast.Expr) {
		blk.List = append(blk.List, &ast.AssignStmt{Lhs: []ast.Expr{lhs}, Tok: token.DEFINE, Rhs: []ast.Expr{rhs}})
	}
	type one struct {
		comm ast.Stmt // communication using hoisted operands and plain assignment
	}
	ops := make([]one, len(comm))
	for i, cc := range comm {
		switch st := cc.Comm.(type) {
		case *ast.SendStmt:
			define(name("ch", i), st.Chan)
			define(name("sv", i), st.Value)
			ops[i].comm = &ast.SendStmt{Chan: name("ch", i), Value: name("sv", i)}
		case *ast.ExprStmt:
			u := st.X.(*ast.UnaryExpr)
			define(name("ch", i), u.X)
			ops[i].comm = &ast.ExprStmt{X: &ast.UnaryExpr{Op: token.ARROW, X: name("ch", i)}}
		case *ast.AssignStmt:
			u := st.Rhs[0].(*ast.UnaryExpr)
			define(name("ch", i), u.X)
			if st.Tok == token.DEFINE {
				// declare the received variables once, outside
				define(st.Lhs[0], r.rtCall("ZeroRecv", name("ch", i)))
				blk.List = append(blk.List, &ast.AssignStmt{Lhs: []ast.Expr{ast.NewIdent("_")}, Tok: token.ASSIGN, Rhs: []ast.Expr{st.Lhs[0]}})
				if len(st.Lhs) == 2 {
					define(st.Lhs[1], ast.NewIdent("false"))
					blk.List = append(blk.List, &ast.AssignStmt{Lhs: []ast.Expr{ast.NewIdent("_")}, Tok: token.ASSIGN, Rhs: []ast.Expr{st.Lhs[1]}})
				}
			}
			ops[i].comm = &ast.AssignStmt{Lhs: st.Lhs, Tok: token.ASSIGN, Rhs: []ast.Expr{&ast.UnaryExpr{Op: token.ARROW, X: name("ch", i)}}}
		default:
			return nil
		}
	}
	lit := func(i int) ast.Expr { return &ast.BasicLit{Kind: token.INT, Value: strconv.Itoa(i)} }
	setFired := func(i int) ast.Stmt {
		return &ast.AssignStmt{Lhs: []ast.Expr{fired}, Tok: token.ASSIGN, Rhs: []ast.Expr{lit(i)}}
	}
	define(fired, &ast.UnaryExpr{Op: token.SUB, X: lit(1)})
	// pass 1: non-blocking attempts in tape order
	sw := &ast.SwitchStmt{Tag: ast.NewIdent(fmt.Sprintf("zzi%d", id)), Body: &ast.BlockStmt{}}
	for i := range comm {
		try := &ast.SelectStmt{Body: &ast.BlockStmt{List: []ast.Stmt{
			&ast.CommClause{Comm: ops[i].comm, Body: []ast.Stmt{setFired(i)}},
			&ast.CommClause{},
		}}}
		sw.Body.List = append(sw.Body.List, &ast.CaseClause{List: []ast.Expr{lit(i)}, Body: []ast.Stmt{try}})
	}
	loop := &ast.RangeStmt{Key: ast.NewIdent("_"), Value: ast.NewIdent(fmt.Sprintf("zzi%d", id)), Tok: token.DEFINE,
		X: r.rtCall("SelectOrder", lit(len(comm)), strLit(r.site(sel.Pos()))),
		Body: &ast.BlockStmt{List: []ast.Stmt{sw,
			&ast.IfStmt{Cond: &ast.BinaryExpr{X: fired, Op: token.GEQ, Y: lit(0)}, Body: &ast.BlockStmt{List: []ast.Stmt{&ast.BranchStmt{Tok: token.BREAK}}}}}}}
	blk.List = append(blk.List, loop)
	// pass 2: nothing ready
	var none ast.Stmt
	if def != nil {
		none = setFired(len(comm))
	} else {
		bs := &ast.SelectStmt{Body: &ast.BlockStmt{}}
		for i := range comm {
			bs.Body.List = append(bs.Body.List, &ast.CommClause{Comm: ops[i].comm, Body: []ast.Stmt{setFired(i)}})
		}
		none = bs
	}
	blk.List = append(blk.List, &ast.IfStmt{Cond: &ast.BinaryExpr{X: fired, Op: token.LSS, Y: lit(0)}, Body: &ast.BlockStmt{List: []ast.Stmt{none}}})
	// dispatch
	disp := &ast.SwitchStmt{Tag: fired, Body: &ast.BlockStmt{}}
	for i, cc := range comm {
		disp.Body.List = append(disp.Body.List, &ast.CaseClause{List: []ast.Expr{lit(i)}, Body: cc.Body})
	}
	if def != nil {
		disp.Body.List = append(disp.Body.List, &ast.CaseClause{List: []ast.Expr{lit(len(comm))}, Body: def.Body})
	}
	// default: unreachable; it keeps a select that was a terminating statement (every clause returns)
	// terminating after the rewrite, so that a function may still end with it
	disp.Body.List = append(disp.Body.List, &ast.CaseClause{Body: []ast.Stmt{&ast.ExprStmt{X: &ast.CallExpr{Fun: ast.NewIdent("panic"), Args: []ast.Expr{strLit("zzsimrt: select dispatch")}}}}})
	blk.List = append(blk.List, disp)
	return blk
}

func isYield(s ast.Stmt) bool {
	es, ok := s.(*ast.ExprStmt)
	if !ok {
		return false
	}
	ce, ok := es.X.(*ast.CallExpr)
	if !ok {
		return false
	}
	sel, ok := ce.Fun.(*ast.SelectorExpr)
	if !ok {
		return false
	}
	id, ok := sel.X.(*ast.Ident)
	return ok && id.Name == rtName && sel.Sel.Name == "Yield"
}

func (r *rewriter) rewriteList(list []ast.Stmt, comm bool) []ast.Stmt {
	outl := make([]ast.Stmt, 0, len(list)*2)
	for _, s := range list {
		if isYield(s) {
			outl = append(outl, s)
			continue
		}
		switch s.(type) {
		case *ast.CaseClause, *ast.CommClause:
			outl = append(outl, s)
			continue
		}
		inner := s
		if ls, ok := s.(*ast.LabeledStmt); ok {
			inner = ls.Stmt
		}
		if r.wantsYield(inner) && s.Pos().IsValid() {
			outl = append(outl, r.yieldStmt(s.Pos()))
		}
		switch st := inner.(type) {
		case *ast.GoStmt:
			if ns := r.rewriteGo(st); ns != nil {
				if ls, ok := s.(*ast.LabeledStmt); ok {
					ls.Stmt = ns
				} else {
					s = ns
				}
			} else {
				// goroutine of a dependency: let it settle before the caller continues
				outl = append(outl, s)
				outl = append(outl, &ast.ExprStmt{X: r.rtCall("Settle", strLit(r.site(st.Pos())))})
				continue
			}
		case *ast.RangeStmt:
			if hoist := r.rewriteMapRange(st); hoist != nil {
				outl = append(outl, hoist)
			}
		}
		outl = append(outl, s)
	}
	return outl
}

func (r *rewriter) wantsYield(s ast.Stmt) bool {
	switch st := s.(type) {
	case *ast.DeclStmt, *ast.EmptyStmt, *ast.BranchStmt:
		return false
	case *ast.AssignStmt:
		return !r.pureLocal(st)
	case *ast.IncDecStmt:
		return !r.localExpr(st.X)
	case *ast.ReturnStmt:
		for _, e := range st.Results {
			if !r.localExpr(e) {
				return true
			}
		}
		return false
	}
	return true
}

func (r *rewriter) pureLocal(a *ast.AssignStmt) bool {
	for _, e := range a.Lhs {
		if !r.localExpr(e) {
			return false
		}
	}
	for _, e := range a.Rhs {
		if !r.localExpr(e) {
			return false
		}
	}
	return true
}

// localExpr: expression made only of literals, local identifiers and operators on them.
func (r *rewriter) localExpr(e ast.Expr) bool {
	ok := true
	ast.Inspect(e, func(n ast.Node) bool {
		switch x := n.(type) {
		case *ast.CallExpr, *ast.SelectorExpr, *ast.IndexExpr, *ast.StarExpr, *ast.FuncLit, *ast.CompositeLit, *ast.SliceExpr, *ast.TypeAssertExpr:
			ok = false
			return false
		case *ast.UnaryExpr:
			if x.Op == token.ARROW || x.Op == token.AND {
				ok = false
				return false
			}
		case *ast.Ident:
			if obj := r.pkg.TypesInfo.ObjectOf(x); obj != nil {
				if v, isVar := obj.(*types.Var); isVar && v.Parent() == r.pkg.Types.Scope() {
					ok = false // package-level variable
					return false
				}
			}
		}
		return true
	})
	return ok
}

func (r *rewriter) rewriteGo(g *ast.GoStmt) ast.Stmt {
	call := g.Call
	rewrite := false
	switch fn := call.Fun.(type) {
	case *ast.FuncLit:
		rewrite = true
	case *ast.Ident:
		if f, ok := r.pkg.TypesInfo.Uses[fn].(*types.Func); ok && f.Pkg() != nil && r.instrumented[f.Pkg().Path()] {
			rewrite = true
		}
	case *ast.SelectorExpr:
		if s, ok := r.pkg.TypesInfo.Selections[fn]; ok {
			if f, ok := s.Obj().(*types.Func); ok && f.Pkg() != nil && r.instrumented[f.Pkg().Path()] {
				rewrite = true
			}
		} else if f, ok := r.pkg.TypesInfo.Uses[fn.Sel].(*types.Func); ok && f.Pkg() != nil && r.instrumented[f.Pkg().Path()] {
			rewrite = true
		}
	}
	if !rewrite {
		return nil
	}
	blk := &ast.BlockStmt{}
	newArgs := make([]ast.Expr, len(call.Args))
	for i, a := range call.Args {
		r.tmp++
		name := fmt.Sprintf("zzarg%d", r.tmp)
		blk.List = append(blk.List, &ast.AssignStmt{Lhs: []ast.Expr{ast.NewIdent(name)}, Tok: token.DEFINE, Rhs: []ast.Expr{a}})
		newArgs[i] = ast.NewIdent(name)
	}
	inner := &ast.CallExpr{Fun: call.Fun, Args: newArgs, Ellipsis: call.Ellipsis}
	lit := &ast.FuncLit{Type: &ast.FuncType{Params: &ast.FieldList{}}, Body: &ast.BlockStmt{List: []ast.Stmt{&ast.ExprStmt{X: inner}}}}
	blk.List = append(blk.List, &ast.ExprStmt{X: r.rtCall("Go", strLit(r.site(g.Pos())), lit)})
	if len(blk.List) == 1 {
		return blk.List[0]
	}
	return blk
}

func (r *rewriter) rewriteMapRange(rs *ast.RangeStmt) ast.Stmt {
	t := r.pkg.TypesInfo.TypeOf(rs.X)
	if t == nil {
		return nil
	}
	if _, ok := t.Underlying().(*types.Map); !ok {
		return nil
	}
	var hoist ast.Stmt
	switch rs.X.(type) {
	case *ast.Ident, *ast.SelectorExpr, *ast.IndexExpr:
	default:
		r.tmp++
		mname := fmt.Sprintf("zzm%d", r.tmp)
		hoist = &ast.AssignStmt{Lhs: []ast.Expr{ast.NewIdent(mname)}, Tok: token.DEFINE, Rhs: []ast.Expr{rs.X}}
		rs.X = ast.NewIdent(mname)
	}
	r.tmp++
	kname := fmt.Sprintf("zzk%d", r.tmp)
	okname := fmt.Sprintf("zzok%d", r.tmp)
	keyIsBlank := rs.Key == nil || isBlank(rs.Key)
	valIsBlank := rs.Value == nil || isBlank(rs.Value)
	var pre []ast.Stmt
	mx := rs.X
	// value lookup + skip deleted
	var valLhs ast.Expr = ast.NewIdent("_")
	valTok := token.ASSIGN
	if !valIsBlank {
		valLhs = rs.Value
		valTok = rs.Tok
	}
	if valTok == token.DEFINE {
		pre = append(pre, &ast.AssignStmt{Lhs: []ast.Expr{valLhs, ast.NewIdent(okname)}, Tok: token.DEFINE, Rhs: []ast.Expr{&ast.IndexExpr{X: mx, Index: ast.NewIdent(kname)}}})
	} else {
		pre = append(pre, &ast.DeclStmt{Decl: &ast.GenDecl{Tok: token.VAR, Specs: []ast.Spec{&ast.ValueSpec{Names: []*ast.Ident{ast.NewIdent(okname)}, Type: ast.NewIdent("bool")}}}})
		pre = append(pre, &ast.AssignStmt{Lhs: []ast.Expr{valLhs, ast.NewIdent(okname)}, Tok: token.ASSIGN, Rhs: []ast.Expr{&ast.IndexExpr{X: mx, Index: ast.NewIdent(kname)}}})
	}
	pre = append(pre, &ast.IfStmt{Cond: &ast.UnaryExpr{Op: token.NOT, X: ast.NewIdent(okname)}, Body: &ast.BlockStmt{List: []ast.Stmt{&ast.BranchStmt{Tok: token.CONTINUE}}}})
	if !keyIsBlank {
		pre = append([]ast.Stmt{&ast.AssignStmt{Lhs: []ast.Expr{rs.Key}, Tok: rs.Tok, Rhs: []ast.Expr{ast.NewIdent(kname)}}}, pre...)
		if rs.Tok == token.DEFINE {
			// avoid "declared and not used"
			pre = append(pre, &ast.AssignStmt{Lhs: []ast.Expr{ast.NewIdent("_")}, Tok: token.ASSIGN, Rhs: []ast.Expr{rs.Key}})
		}
	}
	if !valIsBlank && valTok == token.DEFINE {
		pre = append(pre, &ast.AssignStmt{Lhs: []ast.Expr{ast.NewIdent("_")}, Tok: token.ASSIGN, Rhs: []ast.Expr{rs.Value}})
	}
	rs.Key = ast.NewIdent("_")
	rs.Value = ast.NewIdent(kname)
	rs.Tok = token.DEFINE
	rs.X = r.rtCall("MapKeys", mx, strLit(r.site(rs.Pos())))
	rs.Body.List = append(pre, rs.Body.List...)
	return hoist
}

func isBlank(e ast.Expr) bool {
	id, ok := e.(*ast.Ident)
	return ok && id.Name == "_"
}

var _ = sort.Strings
