#include "textflag.h"

// func getg() uintptr
TEXT ·getg(SB),NOSPLIT,$0-8
	MOVQ TLS, CX
	MOVQ 0(CX)(TLS*1), AX
	MOVQ AX, ret+0(FP)
	RET
