// Package simrand2 stands in for math/rand/v2 in instrumented packages.
package simrand2

import (
	mr "math/rand/v2"

	rt "verifsimrt"
)

func Int64N(n int64) int64 {
	if n > 1<<30 {
		if v := rt.Rand(1 << 30); v >= 0 {
			return int64(v) % n
		}
	} else if v := rt.Rand(int(n)); v >= 0 {
		return int64(v)
	}
	return mr.Int64N(n)
}
func IntN(n int) int {
	if v := rt.Rand(n); v >= 0 {
		return v
	}
	return mr.IntN(n)
}
func Float64() float64 {
	if v := rt.Rand(1 << 20); v >= 0 {
		return float64(v) / float64(1<<20)
	}
	return mr.Float64()
}

func Int64() int64         { return Int64N(1 << 62) }
func Int() int             { return IntN(1 << 30) }
func Int32N(n int32) int32 { return int32(IntN(int(n))) }
func Uint32() uint32       { return uint32(IntN(1 << 30)) }
func Uint64() uint64       { return uint64(Int64N(1 << 62)) }
func N[I ~int | ~int8 | ~int16 | ~int32 | ~int64 | ~uint | ~uint8 | ~uint16 | ~uint32 | ~uint64 | ~uintptr](n I) I {
	return I(Int64N(int64(n)))
}
func Perm(n int) []int {
	p := make([]int, n)
	for i := range p {
		p[i] = i
	}
	Shuffle(n, func(i, j int) { p[i], p[j] = p[j], p[i] })
	return p
}
func Shuffle(n int, swap func(i, j int)) {
	for i := n - 1; i > 0; i-- {
		swap(i, IntN(i+1))
	}
}
