module verifsimrt

go 1.26.8
