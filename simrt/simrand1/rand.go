// Package simrand1 stands in for math/rand in instrumented packages.
package simrand1

import (
	mr "math/rand"

	rt "verifsimrt"
)

func Intn(n int) int {
	if v := rt.Rand(n); v >= 0 {
		return v
	}
	return mr.Intn(n)
}
func Int63n(n int64) int64 {
	if n > 1<<30 {
		if v := rt.Rand(1 << 30); v >= 0 {
			return int64(v) % n
		}
	} else if v := rt.Rand(int(n)); v >= 0 {
		return int64(v)
	}
	return mr.Int63n(n)
}
func Float64() float64 {
	if v := rt.Rand(1 << 20); v >= 0 {
		return float64(v) / float64(1<<20)
	}
	return mr.Float64()
}

func Int63() int64         { return Int63n(1 << 62) }
func Int() int             { return Intn(1 << 30) }
func Int31n(n int32) int32 { return int32(Intn(int(n))) }
func Seed(int64)           {}
func Perm(n int) []int {
	p := make([]int, n)
	for i := range p {
		p[i] = i
	}
	Shuffle(n, func(i, j int) { p[i], p[j] = p[j], p[i] })
	return p
}
func Shuffle(n int, swap func(i, j int)) {
	for i := n - 1; i > 0; i-- {
		swap(i, Intn(i+1))
	}
}
