// Package zzsimrt is the deterministic-simulation runtime that instrumented
// shell-operator code (see /verif/instr) and the harness (/verif/harness) share.
//
// One simulated run = one testing/synctest bubble. At most one task (the
// "holder") executes instrumented code; every other task is parked on a private
// channel. The scheduler goroutine waits for quiescence (synctest.Wait), then
// picks the next holder from the choice tape. With S == nil every entry point is
// a pass-through, so the instrumented build behaves like the original.
package zzsimrt

import (
	"fmt"
	"hash/fnv"
	"os/exec"
	"runtime"
	"sort"
	"strconv"
	"strings"
	"sync"
	"testing/synctest"
	"time"
)

// ---------------------------------------------------------------- tape

// Stream is one named sub-tape. Choose(n) returns a value in [0,n); 0 is by
// construction the simplest choice at every site.
type Stream struct {
	name   string
	rec    []uint32
	replay []uint32
	isRep  bool
	pos    int
	state  uint64
}

func (t *Stream) next() uint64 {
	t.state += 0x9E3779B97F4A7C15
	z := t.state
	z = (z ^ (z >> 30)) * 0xBF58476D1CE4E5B9
	z = (z ^ (z >> 27)) * 0x94D049BB133111EB
	return z ^ (z >> 31)
}

func (t *Stream) Choose(n int) int {
	if n <= 1 {
		return 0
	}
	var v uint32
	if t.isRep {
		if t.pos < len(t.replay) {
			v = t.replay[t.pos] % uint32(n)
		}
		t.pos++
	} else {
		v = uint32(t.next() % uint64(n))
	}
	t.rec = append(t.rec, v)
	return int(v)
}

// Bias returns true with probability num/den; false is the simple choice.
func (t *Stream) Bias(num, den int) bool { return t.Choose(den) >= den-num }

// Range returns a value in [lo,hi].
func (t *Stream) Range(lo, hi int) int { return lo + t.Choose(hi-lo+1) }

// Tape is the set of named streams of one run.
type Tape struct {
	Seed    uint64
	streams map[string]*Stream
	replay  map[string][]uint32
}

func NewTape(seed uint64) *Tape { return &Tape{Seed: seed, streams: map[string]*Stream{}} }

// ReplayTape replays recorded streams; a stream that is absent or exhausted yields 0.
func ReplayTape(seed uint64, rec map[string][]uint32) *Tape {
	if rec == nil {
		rec = map[string][]uint32{}
	}
	return &Tape{Seed: seed, streams: map[string]*Stream{}, replay: rec}
}

func (t *Tape) St(name string) *Stream {
	if s, ok := t.streams[name]; ok {
		return s
	}
	h := fnv.New64a()
	h.Write([]byte(name))
	s := &Stream{name: name, state: t.Seed*0x9E3779B97F4A7C15 ^ h.Sum64()}
	if t.replay != nil {
		s.isRep = true
		s.replay = t.replay[name]
	}
	t.streams[name] = s
	return s
}

// Recorded returns every value drawn so far, per stream.
func (t *Tape) Recorded() map[string][]uint32 {
	out := map[string][]uint32{}
	for n, s := range t.streams {
		out[n] = append([]uint32(nil), s.rec...)
	}
	return out
}

// ---------------------------------------------------------------- sim

type task struct {
	key       string
	wake      chan struct{}
	enabled   func() bool // nil => enabled
	lockWait  bool        // enabled is a simulated-lock predicate
	since     time.Time   // when it started waiting on the lock
	site      string
	lastYield string // last instrumented source site the task passed
	depth     int    // Enter nesting for foreign tasks
	foreign   bool
	nchild    map[string]int
	prio      int
	hasPrio   bool
	harness   bool
	parkedNow bool
}

// Policy selects how the scheduler picks tasks.
type Policy int

const (
	RandomWalk Policy = iota
	PCT
)

type Sim struct {
	mu     sync.Mutex // real mutex; protects scheduler bookkeeping only
	tasks  map[int64]*task
	parked []*task
	holder *task
	idle   chan struct{}
	T      *Tape
	sc     *Stream // schedule stream
	rd     *Stream // code rand stream (math/rand use of the code under test)
	it     *Stream // iteration order stream (map ranges, sync.Map.Range, select clause order)
	gap    int     // RandomWalk: weighted yields left until the next preemption
	on     bool

	Steps    int
	Yields   int
	MaxStep  int
	MaxYield int           // a holder that yields more often than this without the run ending is cut off
	MaxSim   time.Duration // simulated-time cap of the run
	start    time.Time
	aborted  bool

	// policy
	Policy    Policy
	SwitchDen int      // RandomWalk: switch with probability 1/SwitchDen at holder yields
	Focus     []string // site prefixes of the files anchored by the property
	FocusDen  int      // RandomWalk: probability 1/FocusDen inside focus files
	Strict    bool     // every holder yield is a quiescence point

	ChangePoints []int // PCT: focus-yield indexes (1-based, counted from Arm) at which the holder is demoted
	armed        bool
	focusYields  int
	demoted      int
	Preempts     int // preemptions that actually happened
	FocusPreempt int // preemptions inside focus files

	// logs
	Events      []string
	KeepLog     bool
	noYield     int  // >0 while the holder formats map keys for a canonical order (may call Stringers of the code under test)
	TraceYields bool // diagnostic: every holder yield goes to the event log
	digest      uint64
	schedHash   uint64
	arrival     map[string]int

	// seams
	Exec     func(cmd *exec.Cmd, op string) ([]byte, error)
	Observer func(name string, args ...any) // receives the Observe(...) calls placed by directives

	// coverage
	Pairs    map[string]int
	lastSite string
	rootKeyN map[string]int
	Panics   []string
	Counters map[string]int
	Unknown  int // goroutines that reached a yield without registration
	settling *task
	schedG   int64 // goroutine of the scheduler: instrumented code called from it runs unhooked
}

func (s *Sim) isSched() bool { return s.schedG != 0 && goid() == s.schedG }

// S is the simulator of the current run (nil outside a run).
var S *Sim

func New(t *Tape) *Sim {
	s := &Sim{tasks: map[int64]*task{}, idle: make(chan struct{}, 1), T: t, on: true, MaxStep: 200000, MaxYield: 3000000, MaxSim: 6 * time.Hour, start: time.Now(),
		SwitchDen: 4, arrival: map[string]int{}, Pairs: map[string]int{}, rootKeyN: map[string]int{}, Counters: map[string]int{}}
	s.sc = t.St("sched")
	s.rd = t.St("rand")
	s.it = t.St("iter")
	s.gap = -1
	s.schedG = goid() // the creating goroutine is the bubble's root: it may call instrumented code unhooked
	s.digest = 1469598103934665603
	s.schedHash = 1469598103934665603
	return s
}

func getg() uintptr

// goid returns a goroutine identity (the address of its g; valid while the goroutine lives).
func goid() int64 { return int64(getg()) }

// IsTask reports whether the calling goroutine is a task of the scheduler (as opposed to a goroutine of
// a dependency that has not entered instrumented code). Harness helpers that may be called from both
// use it to decide whether a Yield is due after a blocking call.
func IsTask() bool {
	s := S
	if s == nil {
		return false
	}
	g := goid()
	s.mu.Lock()
	defer s.mu.Unlock()
	return s.tasks[g] != nil
}

// GoID identifies the calling goroutine (observation aid: ties two observations made by the same
// goroutine together; it is never used for a scheduling decision).
func GoID() int64 { return goid() }

// Logf appends to the run's event log (part of the determinism digest). Never draws.
func Logf(format string, args ...any) {
	s := S
	if s == nil {
		return
	}
	line := fmt.Sprintf(format, args...)
	s.mu.Lock()
	s.logLocked(line)
	s.mu.Unlock()
}

func hashStr(h uint64, line string) uint64 {
	for i := 0; i < len(line); i++ {
		h ^= uint64(line[i])
		h *= 1099511628211
	}
	h ^= 0xff
	h *= 1099511628211
	return h
}

func (s *Sim) logLocked(line string) {
	s.digest = hashStr(s.digest, line)
	if s.KeepLog && len(s.Events) < 200000 {
		s.Events = append(s.Events, line)
	}
}

// Count increments a named counter (fault fired, probe reached). Never draws.
func Count(name string) {
	s := S
	if s == nil {
		return
	}
	s.mu.Lock()
	s.Counters[name]++
	s.mu.Unlock()
}

func (s *Sim) Digest() uint64    { return s.digest }
func (s *Sim) SchedHash() uint64 { return s.schedHash }
func (s *Sim) FocusYields() int  { return s.focusYields }

// Arm starts counting focus yields for PCT change points (call after set-up).
func (s *Sim) Arm() { s.armed = true; s.focusYields = 0 }

func (s *Sim) self() *task {
	g := goid()
	s.mu.Lock()
	t := s.tasks[g]
	s.mu.Unlock()
	return t
}

func (s *Sim) signalIdle() {
	select {
	case s.idle <- struct{}{}:
	default:
	}
}

func (s *Sim) park(t *task, site string) {
	s.mu.Lock()
	t.site = site
	s.parked = append(s.parked, t)
	if s.holder == t {
		s.holder = nil
	}
	s.mu.Unlock()
	s.signalIdle()
	<-t.wake
}

func (s *Sim) recordPanic(r any) {
	buf := make([]byte, 16384)
	n := runtime.Stack(buf, false)
	s.mu.Lock()
	s.Panics = append(s.Panics, fmt.Sprintf("%v\n%s", r, buf[:n]))
	s.mu.Unlock()
}

// Go starts a controlled task (rewritten `go` statement).
func Go(site string, f func()) {
	s := S
	if s == nil || !s.on {
		go f()
		return
	}
	parent := s.self()
	pkey := "root"
	var n int
	s.mu.Lock()
	if parent != nil {
		pkey = parent.key
		if parent.nchild == nil {
			parent.nchild = map[string]int{}
		}
		parent.nchild[site]++
		n = parent.nchild[site]
	} else {
		s.rootKeyN[site]++
		n = s.rootKeyN[site]
	}
	s.mu.Unlock()
	// keys stay short: only the last component of the parent chain is kept, plus a per-site ordinal
	if i := strings.LastIndex(pkey, ">"); i >= 0 && strings.Count(pkey, ">") >= 2 {
		pkey = "…" + pkey[i:]
	}
	key := pkey + ">" + site + "#" + strconv.Itoa(n)
	go func() {
		t := &task{key: key, wake: make(chan struct{})}
		s.mu.Lock()
		s.tasks[goid()] = t
		s.mu.Unlock()
		s.park(t, site)
		defer s.exit(t)
		defer func() {
			if r := recover(); r != nil {
				s.recordPanic(r)
			}
		}()
		f()
	}()
}

// GoNamed starts a harness task.
func GoNamed(key string, f func()) {
	s := S
	go func() {
		t := &task{key: key, wake: make(chan struct{}), harness: true}
		s.mu.Lock()
		s.tasks[goid()] = t
		s.mu.Unlock()
		s.park(t, key)
		defer s.exit(t)
		defer func() {
			if r := recover(); r != nil {
				s.recordPanic(r)
			}
		}()
		f()
	}()
}

func (s *Sim) exit(t *task) {
	s.mu.Lock()
	for g, tt := range s.tasks {
		if tt == t {
			delete(s.tasks, g)
		}
	}
	if s.holder == t {
		s.holder = nil
	}
	s.mu.Unlock()
	s.signalIdle()
}

// Enter registers a goroutine not created by instrumented code (foreign entry point).
func Enter(key string) {
	s := S
	if s == nil || !s.on || s.isSched() {
		return
	}
	g := goid()
	s.mu.Lock()
	t := s.tasks[g]
	if t == nil {
		s.arrival[key]++
		t = &task{key: "ext:" + key, wake: make(chan struct{}), foreign: true}
		s.tasks[g] = t
	}
	t.depth++
	isHolder := s.holder == t
	s.mu.Unlock()
	if !isHolder {
		s.park(t, "enter:"+key)
	}
}

// Leave ends a foreign entry; it also turns a panic in the entered code into a recorded result.
func Leave() {
	s := S
	if s == nil || !s.on || s.isSched() {
		return
	}
	g := goid()
	s.mu.Lock()
	t := s.tasks[g]
	foreignTop := t != nil && t.foreign && t.depth <= 1
	s.mu.Unlock()
	if foreignTop {
		if r := recover(); r != nil {
			s.recordPanic(r)
		}
	}
	s.mu.Lock()
	if t != nil && t.foreign {
		t.depth--
		if t.depth <= 0 {
			delete(s.tasks, g)
			if s.holder == t {
				s.holder = nil
			}
		}
	}
	s.mu.Unlock()
	if foreignTop {
		s.signalIdle()
	}
}

func (s *Sim) inFocus(site string) bool {
	if len(s.Focus) == 0 {
		return true
	}
	for _, f := range s.Focus {
		if strings.HasPrefix(site, f) {
			return true
		}
	}
	return false
}

// Yield is a preemption point (inserted before every non-trivial statement).
func Yield(site string) {
	s := S
	if s == nil || !s.on {
		return
	}
	g := goid()
	if g == s.schedG {
		return
	}
	s.mu.Lock()
	t := s.tasks[g]
	if t == nil {
		// unknown goroutine entering instrumented code without a directive
		s.arrival[site]++
		s.Unknown++
		s.Counters["infra:unregistered-goroutine@"+site]++
		t = &task{key: "ext?:" + site + "#" + strconv.Itoa(s.arrival[site]), wake: make(chan struct{}), foreign: true, depth: 1 << 30}
		s.tasks[g] = t
	}
	isHolder := s.holder == t
	s.Yields++
	if len(site) > 4 && site[:4] == "pkg/" {
		t.lastYield = site
	}
	over := s.Yields > s.MaxYield
	s.mu.Unlock()
	if over {
		// runaway run: stop this task for good; the scheduler ends the run
		s.mu.Lock()
		s.aborted = true
		if s.holder == t {
			s.holder = nil
		}
		s.mu.Unlock()
		s.signalIdle()
		select {}
	}
	if !isHolder {
		s.park(t, site)
		return
	}
	if s.noYield > 0 {
		return // inside the runtime's own key formatting (MapKeys / Map.Range): not a program point
	}
	if s.TraceYields {
		s.mu.Lock()
		s.logLocked("y " + t.key + " " + site)
		s.mu.Unlock()
	}
	s.lastSite = site
	focus := s.inFocus(site)
	if s.Policy == PCT {
		if focus && s.armed {
			s.focusYields++
			for _, cp := range s.ChangePoints {
				if cp == s.focusYields {
					s.demoted++
					s.Preempts++
					s.FocusPreempt++
					t.prio = -s.demoted // below every initial priority
					s.park(t, site)
					return
				}
			}
		}
		if s.Strict {
			s.park(t, site)
		}
		return
	}
	// RandomWalk: one tape entry per preemption, not per yield. A draw v in [0,4*den)
	// is the number of (weighted) yields until the next preemption; 0 means "not for a
	// long while", so an exhausted or zeroed tape never preempts.
	if focus && s.armed {
		s.focusYields++
	}
	if s.gap < 0 {
		v := s.sc.Choose(4 * s.SwitchDen)
		if v == 0 {
			v = 256 * s.SwitchDen
		}
		s.gap = v
	}
	w := 1
	if focus && s.FocusDen > 0 && s.FocusDen < s.SwitchDen {
		w = s.SwitchDen / s.FocusDen
	}
	s.gap -= w
	if s.gap > 0 {
		if s.Strict {
			s.settling = t
			s.park(t, site)
		}
		return
	}
	s.gap = -1
	s.Preempts++
	if focus {
		s.FocusPreempt++
	}
	s.park(t, site)
}

// Settle is a forced quiescence point: the holder parks so that goroutines of
// dependencies it has just started or woken run to a stable state, and is then
// resumed without a scheduling decision.
func Settle(site string) {
	s := S
	if s == nil || !s.on || s.isSched() {
		return
	}
	t := s.self()
	if t == nil {
		return
	}
	s.mu.Lock()
	s.settling = t
	s.mu.Unlock()
	s.park(t, site)
}

// block parks the calling task until pred() holds (evaluated by the scheduler at quiescence).
func (s *Sim) block(site string, pred func() bool, lock bool) {
	t := s.self()
	if t == nil {
		Yield(site)
		t = s.self()
	}
	s.mu.Lock()
	t.enabled = pred
	t.lockWait = lock
	t.since = time.Now()
	s.mu.Unlock()
	s.park(t, site)
	s.mu.Lock()
	t.enabled = nil
	t.lockWait = false
	s.mu.Unlock()
}

// BlockUntil parks the calling harness task until pred holds.
func BlockUntil(site string, pred func() bool) {
	s := S
	if s == nil || !s.on {
		return
	}
	if pred() {
		return
	}
	s.block(site, pred, false)
}

// Sleep is time.Sleep followed by a yield (harness tasks must yield after every blocking operation).
func Sleep(d time.Duration) {
	time.Sleep(d)
	Yield("sleep")
}

// LockBlocked lists tasks that have been waiting on a simulated lock for at least d of simulated time.
func (s *Sim) LockBlocked(d time.Duration) []string {
	s.mu.Lock()
	defer s.mu.Unlock()
	var out []string
	for _, t := range s.parked {
		if t.lockWait && t.enabled != nil && !t.enabled() && time.Since(t.since) >= d {
			out = append(out, t.lastYield)
		}
	}
	sort.Strings(out)
	return out
}

// LockWaiters lists "task key @ source site" of every task waiting on a simulated lock.
func (s *Sim) LockWaiters() []string {
	s.mu.Lock()
	defer s.mu.Unlock()
	var out []string
	for _, t := range s.parked {
		if t.lockWait && t.enabled != nil && !t.enabled() {
			out = append(out, t.key+" "+t.site+" after "+t.lastYield)
		}
	}
	sort.Strings(out)
	return out
}

// LockWaitSites returns the sorted source sites (file:line of the last statement before the lock
// call) of the tasks waiting on a simulated lock.
func (s *Sim) LockWaitSites() []string {
	s.mu.Lock()
	defer s.mu.Unlock()
	var out []string
	for _, t := range s.parked {
		if t.lockWait && t.enabled != nil && !t.enabled() {
			out = append(out, t.lastYield)
		}
	}
	sort.Strings(out)
	return out
}

// ParkedSites describes every parked task (diagnostics).
func (s *Sim) ParkedSites() []string {
	s.mu.Lock()
	defer s.mu.Unlock()
	var out []string
	for _, t := range s.parked {
		out = append(out, t.key+" @"+t.site)
	}
	sort.Strings(out)
	return out
}

var ErrStepCap = fmt.Errorf("step cap reached")
var ErrSimCap = fmt.Errorf("simulated-time cap reached")

// Run is the scheduler loop (call from the bubble's root goroutine). It returns
// nil when done() holds at a moment where no task is enabled, or as soon as stop()
// (optional, may be nil) holds at a quiescence point.
func (s *Sim) Run(done func() bool) error { return s.RunUntil(done, nil) }

func (s *Sim) RunUntil(done func() bool, stop func() bool) error {
	s.schedG = goid()
	for {
		synctest.Wait()
		if stop != nil && stop() {
			return nil
		}
		if s.aborted {
			return ErrStepCap
		}
		if time.Since(s.start) > s.MaxSim {
			return ErrSimCap
		}
		s.mu.Lock()
		var en []*task
		for _, t := range s.parked {
			if t.enabled == nil || t.enabled() {
				en = append(en, t)
			}
		}
		if len(en) == 0 {
			s.mu.Unlock()
			if done() {
				return nil
			}
			// wait for a timer or an external wake to park somebody
			<-s.idle
			continue
		}
		if s.Steps >= s.MaxStep {
			s.mu.Unlock()
			return ErrStepCap
		}
		sort.Slice(en, func(i, j int) bool { return en[i].key < en[j].key })
		var t *task
		if s.settling != nil {
			for _, c := range en {
				if c == s.settling {
					t = c
				}
			}
			s.settling = nil
		}
		if t != nil {
			// resume the settling task: not a scheduling decision
		} else if s.Policy == PCT {
			for _, c := range en {
				if !c.hasPrio {
					c.hasPrio = true
					c.prio = 10 + s.sc.Choose(100000)
				}
				if t == nil || c.prio > t.prio {
					t = c
				}
			}
		} else {
			t = en[s.sc.Choose(len(en))]
		}
		for i, p := range s.parked {
			if p == t {
				s.parked = append(s.parked[:i], s.parked[i+1:]...)
				break
			}
		}
		s.holder = t
		s.Steps++
		if s.lastSite != "" {
			if len(s.Pairs) < 4096 {
				s.Pairs[s.lastSite+"->"+t.site]++
			}
		}
		s.schedHash = hashStr(hashStr(s.schedHash, t.key), t.site)
		s.logLocked("run " + t.key + " @" + t.site)
		s.mu.Unlock()
		t.wake <- struct{}{}
	}
}

// ---------------------------------------------------------------- locks

type Mutex struct {
	locked bool
	real   sync.Mutex
}

func simOn() *Sim {
	s := S
	if s == nil || !s.on {
		return nil
	}
	return s
}

func (m *Mutex) Lock() {
	s := simOn()
	if s == nil {
		m.real.Lock()
		return
	}
	if s.isSched() {
		return
	}
	Yield("Mutex.Lock")
	for m.locked {
		s.block("Mutex.Lock(blocked)", func() bool { return !m.locked }, true)
	}
	m.locked = true
}

func (m *Mutex) Unlock() {
	s := simOn()
	if s == nil {
		m.real.Unlock()
		return
	}
	if s.isSched() {
		return
	}
	m.locked = false
}

func (m *Mutex) TryLock() bool {
	s := simOn()
	if s == nil {
		return m.real.TryLock()
	}
	if m.locked {
		return false
	}
	m.locked = true
	return true
}

type RWMutex struct {
	writer   bool
	readers  int
	wwaiting int
	real     sync.RWMutex
}

func (m *RWMutex) Lock() {
	s := simOn()
	if s == nil {
		m.real.Lock()
		return
	}
	if s.isSched() {
		return
	}
	Yield("RWMutex.Lock")
	m.wwaiting++
	for m.writer || m.readers > 0 {
		s.block("RWMutex.Lock(blocked)", func() bool { return !m.writer && m.readers == 0 }, true)
	}
	m.wwaiting--
	m.writer = true
}

func (m *RWMutex) Unlock() {
	s := simOn()
	if s == nil {
		m.real.Unlock()
		return
	}
	if s.isSched() {
		return
	}
	m.writer = false
}

func (m *RWMutex) RLock() {
	s := simOn()
	if s == nil {
		m.real.RLock()
		return
	}
	if s.isSched() {
		return
	}
	Yield("RWMutex.RLock")
	// Go's documented rule: a blocked Lock call excludes new readers.
	for m.writer || m.wwaiting > 0 {
		s.block("RWMutex.RLock(blocked)", func() bool { return !m.writer && m.wwaiting == 0 }, true)
	}
	m.readers++
}

func (m *RWMutex) RUnlock() {
	s := simOn()
	if s == nil {
		m.real.RUnlock()
		return
	}
	if s.isSched() {
		return
	}
	if m.readers > 0 {
		m.readers--
	}
}

func (m *RWMutex) TryLock() bool {
	s := simOn()
	if s == nil {
		return m.real.TryLock()
	}
	if m.writer || m.readers > 0 {
		return false
	}
	m.writer = true
	return true
}

func (m *RWMutex) TryRLock() bool {
	s := simOn()
	if s == nil {
		return m.real.TryRLock()
	}
	if m.writer || m.wwaiting > 0 {
		return false
	}
	m.readers++
	return true
}

type Once struct {
	done    bool
	running bool
	real    sync.Once
}

func (o *Once) Do(f func()) {
	s := simOn()
	if s == nil {
		o.real.Do(f)
		return
	}
	if s.isSched() {
		if !o.done {
			o.done = true
			f()
		}
		return
	}
	Yield("Once.Do")
	if o.done {
		return
	}
	for o.running {
		s.block("Once.Do(blocked)", func() bool { return !o.running }, true)
		if o.done {
			return
		}
	}
	o.running = true
	defer func() { o.running = false; o.done = true }()
	f()
}

// Map is a deterministic stand-in for sync.Map.
type Map struct {
	mu   sync.Mutex
	m    map[any]any
	keys []any
}

func (m *Map) Store(k, v any) {
	m.mu.Lock()
	defer m.mu.Unlock()
	if m.m == nil {
		m.m = map[any]any{}
	}
	if _, ok := m.m[k]; !ok {
		m.keys = append(m.keys, k)
	}
	m.m[k] = v
}

func (m *Map) Load(k any) (any, bool) {
	m.mu.Lock()
	defer m.mu.Unlock()
	v, ok := m.m[k]
	return v, ok
}

func (m *Map) Delete(k any) {
	m.mu.Lock()
	defer m.mu.Unlock()
	if _, ok := m.m[k]; ok {
		delete(m.m, k)
		for i, kk := range m.keys {
			if kk == k {
				m.keys = append(m.keys[:i], m.keys[i+1:]...)
				break
			}
		}
	}
}

func (m *Map) LoadOrStore(k, v any) (any, bool) {
	m.mu.Lock()
	defer m.mu.Unlock()
	if m.m == nil {
		m.m = map[any]any{}
	}
	if old, ok := m.m[k]; ok {
		return old, true
	}
	m.keys = append(m.keys, k)
	m.m[k] = v
	return v, false
}

func (m *Map) LoadAndDelete(k any) (any, bool) {
	v, ok := m.Load(k)
	if ok {
		m.Delete(k)
	}
	return v, ok
}

func (m *Map) Range(f func(k, v any) bool) {
	m.mu.Lock()
	keys := append([]any(nil), m.keys...)
	m.mu.Unlock()
	if s := S; s != nil && s.on {
		sortCanonical(s, keys)
	} else {
		sort.Slice(keys, func(i, j int) bool { return fmt.Sprint(keys[i]) < fmt.Sprint(keys[j]) })
	}
	keys = rotate(keys)
	for _, k := range keys {
		v, ok := m.Load(k)
		if !ok {
			continue
		}
		if !f(k, v) {
			return
		}
	}
}

// sortCanonical sorts keys by their printed form. Printing may call String methods of the code
// under test (instrumented): their yields are suppressed and each key is printed exactly once, so
// the number of program points passed does not depend on Go's map iteration order.
func sortCanonical[K any](s *Sim, keys []K) {
	isTask := !s.isSched()
	if isTask {
		s.noYield++
	}
	strs := make([]string, len(keys))
	for i := range keys {
		strs[i] = fmt.Sprintf("%#v", keys[i])
	}
	if isTask {
		s.noYield--
	}
	idx := make([]int, len(keys))
	for i := range idx {
		idx[i] = i
	}
	sort.Slice(idx, func(a, b int) bool { return strs[idx[a]] < strs[idx[b]] })
	out := make([]K, len(keys))
	for i, j := range idx {
		out[i] = keys[j]
	}
	copy(keys, out)
}

func rotate[K any](keys []K) []K {
	s := S
	if s == nil || !s.on || len(keys) < 2 || s.isSched() {
		return keys
	}
	off := s.it.Choose(len(keys))
	rev := len(keys) > 2 && s.it.Choose(2) == 1
	out := make([]K, 0, len(keys))
	for i := range keys {
		out = append(out, keys[(i+off)%len(keys)])
	}
	if rev {
		for i, j := 0, len(out)-1; i < j; i, j = i+1, j-1 {
			out[i], out[j] = out[j], out[i]
		}
	}
	return out
}

// MapKeys returns the keys of m in a tape-chosen (hence reproducible) order.
func MapKeys[K comparable, V any](m map[K]V, site string) []K {
	keys := make([]K, 0, len(m))
	for k := range m {
		keys = append(keys, k)
	}
	s := S
	if s == nil || !s.on {
		return keys
	}
	sortCanonical(s, keys)
	return rotate(keys)
}

// ---------------------------------------------------------------- exec seam

func CmdRun(cmd *exec.Cmd) error {
	s := S
	if s == nil || !s.on || s.Exec == nil {
		return cmd.Run()
	}
	_, err := s.Exec(cmd, "Run")
	return err
}

func CmdOutput(cmd *exec.Cmd) ([]byte, error) {
	s := S
	if s == nil || !s.on || s.Exec == nil {
		return cmd.Output()
	}
	return s.Exec(cmd, "Output")
}
func CmdCombinedOutput(cmd *exec.Cmd) ([]byte, error) {
	s := S
	if s == nil || !s.on || s.Exec == nil {
		return cmd.CombinedOutput()
	}
	return s.Exec(cmd, "CombinedOutput")
}
func CmdStart(cmd *exec.Cmd) error { return cmd.Start() }
func CmdWait(cmd *exec.Cmd) error  { return cmd.Wait() }

// Observe hands values of the code under test to the harness (pure observation: no
// scheduling decision, no draw).
func Observe(name string, args ...any) {
	s := S
	if s == nil || !s.on || s.Observer == nil {
		return
	}
	s.Observer(name, args...)
}

// ZeroRecv returns the zero value of the channel's element type (R9 helper).
func ZeroRecv[T any](c <-chan T) (z T) { return z }

// SelectOrder returns the order in which a rewritten select tries its clauses.
func SelectOrder(n int, site string) []int {
	out := make([]int, n)
	for i := range out {
		out[i] = i
	}
	s := S
	if s == nil || !s.on || s.isSched() {
		return out
	}
	return rotate(out)
}

// Rand draws for instrumented code's math/rand use.
func Rand(n int) int {
	s := S
	if s == nil || !s.on {
		return -1
	}
	return s.rd.Choose(n)
}
