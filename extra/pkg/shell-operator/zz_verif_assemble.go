package shell_operator

import (
	"context"

	"github.com/deckhouse/deckhouse/pkg/log"

	klient "github.com/flant/kube-client/client"
	"github.com/flant/shell-operator/pkg/config"
	"github.com/flant/shell-operator/pkg/debug"
	objectpatch "github.com/flant/shell-operator/pkg/kube/object_patch"
	kemTypes "github.com/flant/shell-operator/pkg/kube_events_manager/types"
	"github.com/flant/shell-operator/pkg/task"
	"github.com/flant/shell-operator/pkg/task/queue"
)

// VerifAssemble mirrors Init/AssembleCommonOperator/assembleShellOperator without
// kube-config loading and without sockets. Harness-side file, added by overlay only.
func VerifAssemble(ctx context.Context, logger *log.Logger, kc *klient.Client, hooksDir, tempDir string) (*ShellOperator, *debug.Server, error) {
	op := NewShellOperator(ctx, WithLogger(logger))
	op.APIServer = newBaseHTTPServer("127.0.0.1", "0")
	op.setupMetricStorage(map[string]string{"hook": "", "binding": "", "queue": ""})
	op.setupHookMetricStorage()
	op.KubeClient = kc
	op.ObjectPatcher = objectpatch.NewObjectPatcher(kc, logger.Named("object-patcher"))
	op.SetupEventManagers()
	dbg := debug.NewServer("/debug", "", "", logger)
	rc := config.NewConfig(logger)
	if err := op.assembleShellOperator(hooksDir, tempDir, dbg, rc); err != nil {
		return nil, nil, err
	}
	return op, dbg, nil
}

// VerifCombine exposes the unexported combiner used by taskHandleHookRun.
func VerifCombine(op *ShellOperator, q *queue.TaskQueue, t task.Task) *CombineResult {
	return op.combineBindingContextForHook(op.TaskQueues, q, t, nil)
}

// VerifWrapHandlers wraps the kube-event and schedule-event callbacks of the events handler
// (observation of the tasks it creates, in arrival order).
func VerifWrapHandlers(op *ShellOperator, onTasks func(kind string, tasks []task.Task)) {
	kcb := op.ManagerEventsHandler.kubeEventCb
	scb := op.ManagerEventsHandler.scheduleCb
	op.ManagerEventsHandler.kubeEventCb = func(ev kemTypes.KubeEvent) []task.Task {
		ts := kcb(ev)
		onTasks("kube", ts)
		return ts
	}
	op.ManagerEventsHandler.scheduleCb = func(crontab string) []task.Task {
		ts := scb(crontab)
		onTasks("schedule:"+crontab, ts)
		return ts
	}
}

// VerifScheduleCb returns the callback the events handler calls for a fired crontab (it creates the
// tasks of every enabled schedule binding with that crontab).
func VerifScheduleCb(op *ShellOperator) func(crontab string) []task.Task {
	return op.ManagerEventsHandler.scheduleCb
}
