package shell_operator

import (
	"context"

	"github.com/deckhouse/deckhouse/pkg/log"

	klient "github.com/flant/kube-client/client"
	"github.com/flant/shell-operator/pkg/config"
	"github.com/flant/shell-operator/pkg/debug"
	objectpatch "github.com/flant/shell-operator/pkg/kube/object_patch"
)

// VerifAssemble mirrors Init/AssembleCommonOperator/assembleShellOperator without
// kube-config loading and without sockets. Harness-side file, added by overlay only.
func VerifAssemble(ctx context.Context, logger *log.Logger, kc *klient.Client, hooksDir, tempDir string) (*ShellOperator, *debug.Server, error) {
	op := NewShellOperator(ctx, WithLogger(logger))
	op.APIServer = newBaseHTTPServer("127.0.0.1", "0")
	op.setupMetricStorage(map[string]string{"hook": "", "binding": "", "queue": ""})
	op.setupHookMetricStorage()
	op.KubeClient = kc
	op.ObjectPatcher = objectpatch.NewObjectPatcher(kc, logger.Named("object-patcher"))
	op.SetupEventManagers()
	dbg := debug.NewServer("/debug", "", "", logger)
	rc := config.NewConfig(logger)
	if err := op.assembleShellOperator(hooksDir, tempDir, dbg, rc); err != nil {
		return nil, nil, err
	}
	return op, dbg, nil
}
