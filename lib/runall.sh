#!/bin/bash
# runs every registered check's quick (or $1) tier and prints one summary line per property
tier=${1:-quick}
cd "$(dirname "$0")/.."
for p in $(python3 -c "import json;print(' '.join(c['property_id'] for c in json.load(open('MANIFEST.json'))['checks']))"); do
  s=$(date +%s)
  out=$(./check $p $tier 2>&1); rc=$?
  e=$(( $(date +%s) - s ))
  echo "$p rc=$rc ${e}s $(echo "$out" | grep '^check ' | cut -c1-140)"
  echo "$out" | grep '^VIOLATION\|^INFRA' | cut -c1-300
done
