#!/bin/bash
# usage: try_seeded_copy.sh <patch.diff> <property> [tier]
# like try_seeded.sh, but the change is applied to a scratch worktree of /repo (VERIF_REPO), so /repo stays
# untouched (for use while a long run on /repo is in progress); the worktree is removed afterwards
V=$(cd "$(dirname "$0")/.." && pwd)
patch=$(readlink -f "$1"); prop=$2; tier=${3:-quick}
wt=/var/tmp/verif-mut-$$
git -C /repo worktree add -q --detach $wt HEAD || exit 2
trap 'git -C /repo worktree remove --force '$wt' 2>/dev/null' EXIT
git -C $wt apply "$patch" || { echo "patch does not apply"; exit 2; }
cd "$V"
out=$(VERIF_REPO=$wt VERIF_NO_EVIDENCE=1 ./check $prop $tier 2>&1); rc=$?
echo "rc=$rc"
echo "$out" | grep -v "^KNOWN-FINDING" | cut -c1-400 | head -20
exit $rc
