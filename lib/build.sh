#!/bin/bash
# Build the instrumented harness test binary from /repo's current working tree.
# usage: build.sh <out-binary> [mutate-spec]
# Prints the path of the binary; exit 2 on any build trouble.
set -u
export GOFLAGS=-mod=mod GOPROXY=off GOSUMDB=off GOTOOLCHAIN=local
export PATH=/opt/veriftools/go1.26.8/bin:$PATH
V=$(cd "$(dirname "$0")/.." && pwd)
REPO=${VERIF_REPO:-/repo}
OUT=$1
MUT=${2:-}
mkdir -p $V/.cache
# 1. instrumenter binary (rebuilt when its sources change)
ikey=$(cat $V/instr/main.go $V/instr/go.mod | sha256sum | cut -c1-16)
INSTR=$V/.cache/instr-$ikey
if [ ! -x "$INSTR" ]; then
  (cd $V/instr && go build -o "$INSTR" .) >&2 || { echo "INFRA: cannot build instr" >&2; exit 2; }
fi
# 2. instrument the current tree into a scratch dir
SCR=$(mktemp -d /var/tmp/verif-build.XXXXXX)
trap 'rm -rf "$SCR"' EXIT
margs=()
[ -n "$MUT" ] && margs=(-mutate "$MUT")
"$INSTR" -repo "$REPO" -out "$SCR" -directives $V/instr/directives.json -extra $V/extra "${margs[@]}" >"$SCR/instr.log" 2>&1 || { cat "$SCR/instr.log" >&2; echo "INFRA: instrumentation failed" >&2; exit 2; }
# 3. cache key: instrumented sources + every .go file of the repo tree (packages that are not
#    instrumented are compiled straight from /repo) + harness + runtime + repo go.mod/go.sum
key=$( (cd "$SCR/src" && find . -type f | sort | xargs sha256sum; cat $REPO/go.mod $REPO/go.sum; (cd $REPO && find . -name '*.go' -not -path './.git/*' -type f | sort | xargs sha256sum); cd $V && find harness simrt extra -type f \( -name '*.go' -o -name '*.s' -o -name go.mod \) | sort | xargs sha256sum) | sha256sum | cut -c1-20)
BIN=$V/.cache/harness-$key.test
if [ ! -x "$BIN" ]; then
  # the overlay must point at stable paths for the compile; keep sources next to the binary
  SRC=$V/.cache/src-$key
  rm -rf "$SRC"; mkdir -p "$SRC"
  cp -r "$SCR/src" "$SRC/src"
  sed "s#$SCR#$SRC#g" "$SCR/overlay.json" > "$SRC/overlay.json"
  modflag=()
  if [ "$REPO" != "/repo" ]; then
    # a tree other than /repo (scratch copy with a seeded change): same module graph, other replace target
    sed "s#^replace github.com/flant/shell-operator => /repo#replace github.com/flant/shell-operator => $REPO#" $V/harness/go.mod > "$SRC/alt.mod"
    cp $V/harness/go.sum "$SRC/alt.sum"
    modflag=(-modfile="$SRC/alt.mod")
  fi
  (cd $V/harness && go test -c -vet=off "${modflag[@]}" -overlay="$SRC/overlay.json" -o "$BIN.tmp" . ) >"$SCR/build.log" 2>&1 || { cat "$SCR/build.log" >&2; rm -rf "$SRC"; echo "INFRA: harness build failed" >&2; exit 2; }
  mv "$BIN.tmp" "$BIN"
  rm -rf "$SRC"
  # keep the cache small: newest 12 binaries
  ls -t $V/.cache/harness-*.test 2>/dev/null | tail -n +13 | xargs -r rm -f
fi
ln -sf "$BIN" "$OUT" 2>/dev/null || cp "$BIN" "$OUT"
grep -h '^instr:' "$SCR/instr.log" >&2
echo "$BIN"
