#!/usr/bin/env python3
"""Regenerates /verif/MANIFEST.json from lib/levels.json (claimed checks) and lib/not_applicable.json."""
import json, os
V = os.path.dirname(os.path.dirname(os.path.abspath(__file__)))
levels = json.load(open(os.path.join(V, "lib", "levels.json")))
na = json.load(open(os.path.join(V, "lib", "not_applicable.json")))
props = [json.loads(l)["id"] for l in open(os.path.join(V, "properties.jsonl")) if l.strip()]
checks = []
for p in props:
    if p not in levels:
        continue
    lv = levels[p]
    checks.append({
        "property_id": p,
        "quick_cmd": "./check %s quick" % p,
        "thorough_cmd": "./check %s thorough" % p,
        "evidence_file": "/verif/evidence/%s.json" % p,
        "replay_cmd_template": "./check %s --replay {path}" % p,
        "engine": "simrt",
        "level_claimed": {"category": lv["level"], "text": lv["claim"], "design_ref": lv.get("design_ref", "DESIGN.md section 4, " + p)},
        "level_note": lv["note"],
        "technique": lv.get("technique", "deterministic simulation with fault injection"),
    })
missing = [p for p in props if p not in levels and p not in {x["property_id"] for x in na}]
assert not missing, "properties neither claimed nor listed as not applicable: %s" % missing
m = {
    "version": 1,
    "setup_cmd": "./check setup",
    "hooks": {
        "guard": "verif",
        "enable": "no source hooks are committed to /repo: every check re-instruments /repo's current working tree with /verif/instr (typed AST rewrite: yield points, simulated locks, controlled goroutines, exec seam) into a scratch directory and compiles it with `go test -c -overlay`; the build tag `verif` is nominal",
        "baseline_off_cmd": "cd /repo && GOFLAGS=-mod=mod go test -vet=off -count=1 -timeout 25m ./...",
        "source_commits": [],
        "add_only": True,
    },
    "engines": [{
        "name": "simrt",
        "path": "/verif/simrt + /verif/instr + /verif/harness + /verif/check",
        "serves_properties": [c["property_id"] for c in checks],
        "kind_free_text": "deterministic simulator: one testing/synctest bubble per run (fake clock, quiescence detection), baton scheduler over statement-granular yield points inserted by a compiler-overlay instrumenter, seeded choice tape with named streams (workload, faults, schedule, code-rand, iteration order), simulated API server behind client-go's fake reactor seam, scripted hook processes behind the exec seam, tape replay and minimisation",
    }],
    "checks": checks,
    "not_applicable": [x for x in na if x["property_id"] not in levels],
    "notes": "See DESIGN.md. known-findings.txt lists recorded findings and repaired defects. `./check selftest` = determinism self-test; `./check sanity` = translation sanity of the instrumentation; seeded/ holds the breaking changes the checks were tried against.",
}
json.dump(m, open(os.path.join(V, "MANIFEST.json"), "w"), indent=1)
print("MANIFEST.json:", len(checks), "checks,", len(m["not_applicable"]), "not applicable")
