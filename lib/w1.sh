#!/bin/bash
# debug helper: run one worker of a property's plan and summarise
prop=$1; scale=${2:-10}; shift; shift
rm -rf /verif/out/w1; mkdir -p /verif/out/w1/scratch
export GODEBUG=randseednop=0 QUEUE_ACTIONS_METRICS=no GOMAXPROCS=1
env VERIF_PROP=$prop VERIF_OUT=/verif/out/w1 VERIF_SCRATCH=/verif/out/w1/scratch VERIF_TIER=quick VERIF_SCALE_PCT=$scale "$@" timeout -s QUIT 600 /verif/.cache/h.test -test.run 'TestWorker$' -test.timeout 1h > /verif/out/w1/log.txt 2>&1
echo "exit $?"; grep -v '^{"level"' /verif/out/w1/log.txt | tail -5
python3 - <<'P'
import json
d=json.load(open('/verif/out/w1/worker-0.json'))
for p in d['parts']:
    print(p['workload'],p['cfg'],'runs',p['runs'],'trunc',p['truncated'],'steps/run',p['steps']//max(1,p['runs']),'yields/run',p['yields']//max(1,p['runs']),'preempt/run',round(p['preempts']/max(1,p['runs']),1),'focusY/run',p.get('focus_yields',0)//max(1,p['runs']),'wall',round(p['wall_s'],1),'ms/run',round(1000*p['wall_s']/max(1,p['runs']),2), p['counters'])
for c,i in (d['classes'] or {}).items(): print(' CLASS',c,i['count'],i['confirm'],i['replay'],'|',i['first']['detail'][:300])
print('infra',(d['infra'] or [])[:3]); print('hashes',len(d['nontrivial_sched_hashes'] or []),'pairs', len(d['switch_pairs'] or []))
P
