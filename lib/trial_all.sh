#!/bin/bash
# usage: trial_all.sh [id ...]   -- tries seeded changes (all by default) against the quick tier of their
# property on a scratch worktree and records the outcome in seeded/<id>/trial.txt
V=$(cd "$(dirname "$0")/.." && pwd)
cd "$V"
ids=("$@"); [ ${#ids[@]} -eq 0 ] && ids=($(ls seeded | grep -v INDEX))
for id in "${ids[@]}"; do
  prop=${id%%-*}
  [ -f seeded/$id/patch.diff ] || continue
  out=$(lib/try_seeded_copy.sh seeded/$id/patch.diff $prop quick 2>&1 | grep -v conda | grep "^rc=\|^check \|class=\|INFRA" | cut -c1-300)
  { echo "\$ lib/try_seeded_copy.sh seeded/$id/patch.diff $prop quick   # $(date -u +%FT%TZ), harness ${VERIF_HARNESS_ID:-$(git rev-parse --short HEAD)}"; echo "$out"; } > seeded/$id/trial.txt
  echo "$id $(echo "$out" | head -1) $(echo "$out" | grep -c 'class=') classes"
done
