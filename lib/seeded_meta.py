#!/usr/bin/env python3
"""Writes seeded/<id>/meta.json and seeded/INDEX.md.

The table below is maintained by hand: one entry per seeded breaking change (written by an
independent sub-agent that saw only the property text), what it needs to manifest, which check
reports it and with which violation classes, and what had to be strengthened when a check missed it.
`ran` is filled from seeded/<id>/trial.txt (output of lib/try_seeded.sh) when present.
"""
import json, os, re, sys

V = os.path.dirname(os.path.dirname(os.path.abspath(__file__)))

E = [
 # id, property, change, needs, detected_by, classes, history
 ("C01-a", "C01", "enableKubeEventCb releases eventBufLock before replaying the buffered events",
  "a particular interleaving: >=2 events buffered during Synchronization, a slow consumer of the event channel, and a new change of an object that still has an un-replayed buffered event arriving during the replay",
  "C01 quick", ["C01/O2/order-or-invention", "C01/O4/lost-event", "C01/O3/*"],
  "caught after the monitor workload got a slow event consumer and shorter event spacing (round 1 runs reached the window too rarely)"),
 ("C01-b", "C01", "taskHandleHookRun stores the task metadata before the combined monitor ids are added (value type), so a retried combined Synchronization unlocks only its own monitor",
  "fault + history: a hook with >=2 kubernetes bindings whose Synchronizations are combined (group), the combined run fails once (allowFailure=false), the retry succeeds, later an object of the second binding changes",
  "C01 quick", ["C01/O1/event-before-synchronization", "C01/O5/change-not-reflected-by-group-execution"],
  "missed at first: the C01 operator parts ran without failing hooks; part `prop=C01,fail=40` added"),
 ("C02-a", "C02", "UpdateSnapshots per-execution cache tests len(cache[name])==0 instead of key presence",
  "interleaving: a binding whose snapshot is needed twice in one execution, empty at the first read, a matching object created between the two reads inside one UpdateSnapshots call",
  "C02 quick", ["C02/S4/differs-within-execution"],
  "missed at first: new controller-level workload `snapshots` (dense UpdateSnapshots calls racing with object creation, change points inside hook_controller.go)"),
 ("C02-b", "C02", "handleWatchEvent asserts *cache.DeletedFinalStateUnknown (pointer) while client-go delivers the tombstone by value: deletes surfaced by a relist are dropped",
  "fault: the watch stream expires (410) so that the reflector relists, and a matching object is deleted while the stream is down",
  "C02 quick", ["C02/S3/ghost-at-quiescence"], "caught as built (watch-expired fault of the API server model)"),
 ("C03-a", "C03", "ManagerEventsHandler resolves the target queue once per event from the first task",
  "configuration + tick: two schedule bindings with the same crontab string and different queues",
  "C03 quick", ["C03/Q3/wrong-queue", "C03/Q1/overlap"], "caught as built"),
 ("C03-b", "C03", "TaskQueue.String calls q.Length() inside q.Iterate: recursive read lock on the queue's RWMutex",
  "interleaving: AddLast for queue A (by the events handler, which holds the queue-set lock) arrives between the two read locks of A's worker; then every queue stops receiving tasks",
  "C03 quick", ["C03/DEADLOCK/queue_set.go+task_queue.go"], "caught as built (simulated RWMutex with writer preference, deadlock = violation)"),
 ("C04-a", "C04", "t.UpdateMetadata(hookMeta) moved inside the `len(MonitorIDs) > 0` branch: combined contexts are lost on retry",
  "history + fault: >=2 adjacent HookRun tasks of one hook (Event/Schedule), the combined execution fails with allowFailure=false",
  "C04 quick", ["C04/F1/retry-differs", "C04/F5/context-discarded"], "caught as built"),
 ("C04-b", "C04", "TaskQueue.AddLast calls CancelTaskDelay: any arriving task ends the back-off of a failed head task",
  "timing: a failed non-allowFailure execution, and another task appended to the same queue during the back-off",
  "C04 quick", ["C04/F2/retry-too-early"], "caught as built"),
 ("C05-a", "C05", "the worker's Success branch calls removeFirst() instead of remove(id)",
  "interleaving: a head-changing operation (AddFirst, AddBefore head, Remove head, Filter) while the handler of the head task runs",
  "C05 quick", ["C05/L1/not-linearizable"], "caught as built (porcupine against the sequential list model)"),
 ("C05-b", "C05", "TaskQueue.Filter runs the filter under the read lock and assigns the result under the write lock (lost update)",
  "interleaving: another goroutine adds or removes a task between Filter's snapshot and its assignment",
  "C05 quick", ["C05/L1/not-linearizable"], "caught as built"),
 ("C06-a", "C06", "ScheduleLinks are built at configuration load instead of at EnableScheduleBindings",
  "two hooks with the same crontab string; the earlier hook's schedule is enabled and ticks while the later hook (with kubernetes bindings) is not enabled yet",
  "C06 quick", ["C06/U5/schedule-before-synchronization"], "caught as built (restart part)"),
 ("C06-b", "C06", "after a successful Synchronization the handler unlocks every monitor of the hook instead of the task's monitor ids",
  "timing: a hook with >=2 ungrouped kubernetes bindings, a later binding with its own queue, an object of that binding changing before its own Synchronization has run",
  "C06 quick", ["C06/U4/event-before-synchronization"], "caught as built"),
 ("C07-a", "C07", "TaskQueue.Filter lock narrowed (snapshot, unlocked filterFn, assignment)",
  "interleaving: a task appended to the queue while the combine step's Filter is between snapshot and assignment",
  "C07 quick", ["C07/M1/result-differs"], "caught as built (combine workload with a concurrent appender)"),
 ("C07-b", "C07", "same edit as C04-a, written independently for C07: merged contexts live only in the handler's local copy",
  "fault + history: a merged execution (>=2 contexts, no monitor ids) fails and is retried",
  "C07 quick (and C04 quick: F1, F5)", ["C07/M5/merged-contexts-lost-on-retry"],
  "missed by C07 at first (its check stopped at the combine step); operator-level part `opsim prop=C07` with oracle M5 added"),
 ("C08-a", "C08", "handleWatchEvent refreshes the cached object only when an event is sent",
  "history: a jqFilter binding, a change outside the projection (suppressed), then a snapshot read",
  "C08 quick", ["C08/T3/snapshot-stale-after-suppressed-change"], "missed at first: snapshot oracle T3 added to the monitor workload"),
 ("C08-b", "C08", "tombstone asserted as pointer type (as C02-b), plus a checked assertion that swallows the event",
  "fault: watch expiry forcing a relist, an object deleted during the reflector's back-off",
  "C08 quick", ["C08/T2/missing-event:Deleted", "C08/T3/snapshot-keeps-deleted-object"], "caught as built"),
 ("C09-a", "C09", "RemoveFullObject() for keepFullObjectsInMemory=false moved after the cache update: skipped events leave full objects in the cache",
  "configuration keepFullObjectsInMemory=false and a skipped event (replay of a listed object, or a change outside the filter)",
  "C09 quick", ["C09/B4/object-not-omitted"], "caught as built"),
 ("C09-b", "C09", "one package-level jq.Filter shared by all informers that remembers the last parsed expression (two cooperating sites)",
  "interleaving: two bindings with different jqFilter evaluating concurrently: A stores its query, B stores another, A runs B's query",
  "C09 quick", ["C09/B6/filterResult-differs"],
  "missed at first for two reasons: pkg/filter/jq was not instrumented (no yield inside ApplyFilter) and the operator scenarios used one jq expression; instrumentation widened to every package the operator runs, several expressions generated, part `focus=jq+ri` added"),
 ("C11-a", "C11", "ScheduleManager.Remove deletes the Entries record before reading its EntryID (cron.Remove(0))",
  "history: the last id of a crontab removed, then ticks observed or the crontab added again",
  "C11 quick", ["C11/T1/duplicate-firing", "C11/T2/firing-while-unregistered", "C11/T2/missing-firing"], "caught as built (single-copy reference cron)"),
 ("C11-b", "C11", "the cron job sends to ScheduleCh with select/default: a tick is dropped when the channel is full",
  "timing: >=3 different crontabs firing at the same instant, or 2 while the events handler is busy",
  "C11 quick", ["C11/T2/missing-firing"], "caught as built"),
 ("C12-a", "C12", "per-execution environment variables placed before the inherited environment (inherited values of the same name win)",
  "input: the operator's own environment holds BINDING_CONTEXT_PATH, METRICS_PATH ...",
  "C12 quick", ["C12/E2/*", "C12/E3/*", "C12/E4/*"], "missed at first: ambient environment with conflicting names added as a generated input"),
 ("C12-b", "C12", "one uuid per execution stored in a Hook field and read by the five prepare*File helpers",
  "interleaving: two executions of the same hook in different queues overlap between setting the field and the last prepare call",
  "C12 quick", ["C12/E4/file-name-reused", "C12/E2/*", "C12/E5/*"], "caught as built (real processes, executions of one hook in two queues)"),
 ("C13-a", "C13", "unmarshalFromJson loops with `for dec.More()`: a stray closing brace or bracket ends the stream silently",
  "input: a JSON stream with a stray `}` or `]` at document level",
  "C13 quick", ["C13/P1/invalid-stream-not-failed:syntax-fault", "C13/P1/invalid-stream-partly-applied:syntax-fault"],
  "missed at first: syntactic stream faults (stray tokens at document boundaries, truncated last document) added to the generator"),
 ("C13-b", "C13", "ExecuteOperations returns at the first failing operation instead of aggregating",
  "fault: an API write error on a non-last operation (injected, or AlreadyExists on a second application)",
  "C13 quick", ["C13/P2/operation-not-applied", "C13/P3/failure-status"], "caught as built (write faults of the API server model)"),
 ("C14-a", "C14", "admissionResponse stored before patch/metrics application and relayed before the Fail check",
  "fault after a zero exit with allowed:true: invalid patch file, API write error, rejected metrics",
  "C14 quick", ["C14/A1/allowed-although-output-malformed"], "caught as built"),
 ("C14-b", "C14", "`var admissionTask` moved out of the handler closure: shared by all requests",
  "history (registered path, then unknown path) or interleaving (overlapping requests)",
  "C14 quick", ["C14/A1/allowed-on-unknown-path", "C14/A3/message-not-relayed", "C14/A1/*"], "caught as built"),
 ("C15-a", "C15", "FindConversionChain extends on iteration N only cached paths of N rules",
  "history: two requests from the same source, a short chain first and a longer one second",
  "C15 quick", ["C15/V2/path-not-found"], "caught as built"),
 ("C15-b", "C15", "conversion tasks get WithQueueName(\"main\"): each conversion step combines with queued tasks of the same hook",
  "interleaving: a hook with a conversion binding and a schedule/kubernetes binding in main, a request arriving while a task of that hook is at the head of main",
  "C15 quick", ["C15/V7/foreign-contexts-in-conversion-step", "C15/V2/path-not-found"],
  "missed at first: conversion hooks had no other bindings; part `mixed=1` (schedule binding, sometimes the same group, slow and failing) and oracle V7 added"),
 ("C16-a", "C16", "ConstGaugeCollector.UpdateLabels drops the Group of re-labelled series",
  "history: a grouped gauge with live series, a later operation adding a label name, then expiry of the group",
  "C16 quick", ["C16/G1/registry-differs"], "caught as built (reference registry)"),
 ("C16-b", "C16", "vault GetOrCreate*Collector releases the lock between lookup and store",
  "interleaving: two batches report the same new metric name for the first time concurrently; the second Register fails and the operation is dropped silently",
  "C16 quick", ["C16/G1/registry-differs"], "caught as built (two concurrent senders, vault instrumented)"),
 ("C17-a", "C17", "worker stop checks became `break` inside a select; waitForTask's fast path runs before the ctx check",
  "stop requested while a handler runs whose result needs no delay, with more tasks queued",
  "C17 quick", ["C17/H1/*", "C17/H2/worker-not-stopped", "C17/H3/executions-after-stop"], "caught as built"),
 ("C17-b", "C17", "wait loop: non-blocking poll of ctx.Done, then a select on the ticker alone",
  "timing: the stop lands in the last check interval (125 ms) of a back-off, or between an arrival at an idle queue and the next poll",
  "C17 quick", ["C17/H5/task-picked-after-waiting-through-stop"],
  "missed at first: one execution after the stop was indistinguishable from a task already picked; queue status changes are now observed (R11) and oracle H5 compares the simulated instant of the pick with the stop request; stop placement biased to the end of waits (`stopat=wait`)"),
 ("C18-a", "C18", "RateLimitWait only when the task's failure count is 0",
  "fault: a failing non-allowFailure hook with executionMinInterval larger than the retry back-off",
  "C18 quick", ["C18/R1/rate-exceeded"], "missed at first: the C18 scenarios had no failing hooks"),
 ("C18-b", "C18", "RateLimitWait under a 10 s context and the limiter's error replaced by ctx.Err() (nil)",
  "timing: the required wait exceeds 10 s (long interval, or several queues stacking reservations)",
  "C18 quick", ["C18/R1/rate-exceeded"], "caught as built"),
 ("C20-a", "C20", "the skip rule for hidden and lib directories matches the path relative to the hooks directory",
  "input: nested `lib` or hidden directories (depth >= 2) holding executable files",
  "C20 quick", ["C20/D1/hook-set", "C20/D2/foreign-file-invoked"],
  "reported as missed at first because of a stale build cache: the cache key did not cover packages that are not instrumented (lib/build.sh now hashes every .go file of the tree)"),
 ("C20-b", "C20", "loadHook returns the --config error only when the process wrote to stderr",
  "fault: a --config run that exits non-zero silently after printing a valid configuration",
  "C20 quick", ["C20/D5/bad-config-accepted"], "caught as built (single --config faults enumerated per tree)"),
]


def main():
    rows = []
    for (sid, prop, change, needs, by, classes, hist) in E:
        d = os.path.join(V, "seeded", sid)
        if not os.path.isdir(d):
            print("missing", d)
            continue
        ran = ["lib/confirm_seeded.sh (scratch worktree of /repo: demonstration passes without the change; `go build ./...` and `go test -vet=off -count=1 ./...` pass with it, demonstration absent; demonstration fails with it)",
               "lib/try_seeded.sh seeded/%s/patch.diff %s quick (git apply to /repo, ./check, git checkout)" % (sid, prop)]
        trial = ""
        tf = os.path.join(d, "trial.txt")
        if os.path.exists(tf):
            trial = open(tf).read().strip()
        cf = os.path.join(d, "confirm.txt")
        confirmed = os.path.exists(cf) and "CONFIRMED " in open(cf).read() and "NOT-CONFIRMED" not in open(cf).read()
        meta = {"id": sid, "property": prop, "change": change, "needs_to_manifest": needs,
                "author": "independent sub-agent given only the property text and a scratch worktree",
                "confirmed_by_me": confirmed, "what_i_ran": ran, "detected_by": by,
                "violation_classes": classes, "history": hist, "trial_output": trial.splitlines()[:12]}
        with open(os.path.join(d, "meta.json"), "w") as f:
            json.dump(meta, f, indent=1)
        rows.append(meta)
    with open(os.path.join(V, "seeded", "INDEX.md"), "w") as f:
        f.write("# Seeded breaking changes\n\nEach change compiles and passes the 222 existing tests; each was confirmed in a scratch worktree\n(`lib/confirm_seeded.sh`) and tried against the checks with `lib/try_seeded.sh`. `-a` changes are the first\nround, `-b` the second (asked to differ in kind from `-a`).\n\n")
        f.write("| id | change | needs | reported by | classes | note |\n|---|---|---|---|---|---|\n")
        for m in rows:
            f.write("| %s | %s | %s | %s | %s | %s |\n" % (m["id"], m["change"].replace("|", "\\|"), m["needs_to_manifest"].replace("|", "\\|"), m["detected_by"], ", ".join("`%s`" % c for c in m["violation_classes"]), m["history"].replace("|", "\\|")))
    print("wrote %d meta files" % len(rows))


if __name__ == "__main__":
    main()
