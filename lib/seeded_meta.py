#!/usr/bin/env python3
"""Writes seeded/<id>/meta.json and seeded/INDEX.md.

The table below is maintained by hand: one entry per seeded breaking change (written by an
independent sub-agent that saw only the property text), what it needs to manifest, which check
reports it and with which violation classes, and what had to be strengthened when a check missed it.
`ran` is filled from seeded/<id>/trial.txt (output of lib/try_seeded.sh) when present.
"""
import json, os, re, sys

V = os.path.dirname(os.path.dirname(os.path.abspath(__file__)))

E = [
 # id, property, change, needs, detected_by, classes, history
 ("C01-a", "C01", "enableKubeEventCb releases eventBufLock before replaying the buffered events",
  "a particular interleaving: >=2 events buffered during Synchronization, a slow consumer of the event channel, and a new change of an object that still has an un-replayed buffered event arriving during the replay",
  "C01 quick", ["C01/O2/order-or-invention", "C01/O4/lost-event", "C01/O3/*"],
  "caught after the monitor workload got a slow event consumer and shorter event spacing (round 1 runs reached the window too rarely)"),
 ("C01-b", "C01", "taskHandleHookRun stores the task metadata before the combined monitor ids are added (value type), so a retried combined Synchronization unlocks only its own monitor",
  "fault + history: a hook with >=2 kubernetes bindings whose Synchronizations are combined (group), the combined run fails once (allowFailure=false), the retry succeeds, later an object of the second binding changes",
  "C01 quick", ["C01/O1/event-before-synchronization", "C01/O5/change-not-reflected-by-group-execution"],
  "missed at first: the C01 operator parts ran without failing hooks; part `prop=C01,fail=40` added"),
 ("C02-a", "C02", "UpdateSnapshots per-execution cache tests len(cache[name])==0 instead of key presence",
  "interleaving: a binding whose snapshot is needed twice in one execution, empty at the first read, a matching object created between the two reads inside one UpdateSnapshots call",
  "C02 quick", ["C02/S4/differs-within-execution"],
  "missed at first: new controller-level workload `snapshots` (dense UpdateSnapshots calls racing with object creation, change points inside hook_controller.go)"),
 ("C02-b", "C02", "handleWatchEvent asserts *cache.DeletedFinalStateUnknown (pointer) while client-go delivers the tombstone by value: deletes surfaced by a relist are dropped",
  "fault: the watch stream expires (410) so that the reflector relists, and a matching object is deleted while the stream is down",
  "C02 quick", ["C02/S3/ghost-at-quiescence"], "caught as built (watch-expired fault of the API server model)"),
 ("C03-a", "C03", "ManagerEventsHandler resolves the target queue once per event from the first task",
  "configuration + tick: two schedule bindings with the same crontab string and different queues",
  "C03 quick", ["C03/Q3/wrong-queue", "C03/Q1/overlap"], "caught as built"),
 ("C03-b", "C03", "TaskQueue.String calls q.Length() inside q.Iterate: recursive read lock on the queue's RWMutex",
  "interleaving: AddLast for queue A (by the events handler, which holds the queue-set lock) arrives between the two read locks of A's worker; then every queue stops receiving tasks",
  "C03 quick", ["C03/DEADLOCK/queue_set.go+task_queue.go"], "caught as built (simulated RWMutex with writer preference, deadlock = violation)"),
 ("C04-a", "C04", "t.UpdateMetadata(hookMeta) moved inside the `len(MonitorIDs) > 0` branch: combined contexts are lost on retry",
  "history + fault: >=2 adjacent HookRun tasks of one hook (Event/Schedule), the combined execution fails with allowFailure=false",
  "C04 quick", ["C04/F1/retry-differs", "C04/F5/context-discarded"], "caught as built"),
 ("C04-b", "C04", "TaskQueue.AddLast calls CancelTaskDelay: any arriving task ends the back-off of a failed head task",
  "timing: a failed non-allowFailure execution, and another task appended to the same queue during the back-off",
  "C04 quick", ["C04/F2/retry-too-early"], "caught as built"),
 ("C05-a", "C05", "the worker's Success branch calls removeFirst() instead of remove(id)",
  "interleaving: a head-changing operation (AddFirst, AddBefore head, Remove head, Filter) while the handler of the head task runs",
  "C05 quick", ["C05/L1/not-linearizable"], "caught as built (porcupine against the sequential list model)"),
 ("C05-b", "C05", "TaskQueue.Filter runs the filter under the read lock and assigns the result under the write lock (lost update)",
  "interleaving: another goroutine adds or removes a task between Filter's snapshot and its assignment",
  "C05 quick", ["C05/L1/not-linearizable"], "caught as built"),
 ("C06-a", "C06", "ScheduleLinks are built at configuration load instead of at EnableScheduleBindings",
  "two hooks with the same crontab string; the earlier hook's schedule is enabled and ticks while the later hook (with kubernetes bindings) is not enabled yet",
  "C06 quick", ["C06/U5/schedule-before-synchronization"], "caught as built (restart part)"),
 ("C06-b", "C06", "after a successful Synchronization the handler unlocks every monitor of the hook instead of the task's monitor ids",
  "timing: a hook with >=2 ungrouped kubernetes bindings, a later binding with its own queue, an object of that binding changing before its own Synchronization has run",
  "C06 quick", ["C06/U4/event-before-synchronization"], "caught as built"),
 ("C07-a", "C07", "TaskQueue.Filter lock narrowed (snapshot, unlocked filterFn, assignment)",
  "interleaving: a task appended to the queue while the combine step's Filter is between snapshot and assignment",
  "C07 quick", ["C07/M1/result-differs"], "caught as built (combine workload with a concurrent appender)"),
 ("C07-b", "C07", "same edit as C04-a, written independently for C07: merged contexts live only in the handler's local copy",
  "fault + history: a merged execution (>=2 contexts, no monitor ids) fails and is retried",
  "C07 quick (and C04 quick: F1, F5)", ["C07/M5/merged-contexts-lost-on-retry"],
  "missed by C07 at first (its check stopped at the combine step); operator-level part `opsim prop=C07` with oracle M5 added"),
 ("C08-a", "C08", "handleWatchEvent refreshes the cached object only when an event is sent",
  "history: a jqFilter binding, a change outside the projection (suppressed), then a snapshot read",
  "C08 quick", ["C08/T3/snapshot-stale-after-suppressed-change"], "missed at first: snapshot oracle T3 added to the monitor workload"),
 ("C08-b", "C08", "tombstone asserted as pointer type (as C02-b), plus a checked assertion that swallows the event",
  "fault: watch expiry forcing a relist, an object deleted during the reflector's back-off",
  "C08 quick", ["C08/T2/missing-event:Deleted", "C08/T3/snapshot-keeps-deleted-object"], "caught as built"),
 ("C09-a", "C09", "RemoveFullObject() for keepFullObjectsInMemory=false moved after the cache update: skipped events leave full objects in the cache",
  "configuration keepFullObjectsInMemory=false and a skipped event (replay of a listed object, or a change outside the filter)",
  "C09 quick", ["C09/B4/object-not-omitted"], "caught as built"),
 ("C09-b", "C09", "one package-level jq.Filter shared by all informers that remembers the last parsed expression (two cooperating sites)",
  "interleaving: two bindings with different jqFilter evaluating concurrently: A stores its query, B stores another, A runs B's query",
  "C09 quick", ["C09/B6/filterResult-differs"],
  "missed at first for two reasons: pkg/filter/jq was not instrumented (no yield inside ApplyFilter) and the operator scenarios used one jq expression; instrumentation widened to every package the operator runs, several expressions generated, part `focus=jq+ri` added"),
 ("C11-a", "C11", "ScheduleManager.Remove deletes the Entries record before reading its EntryID (cron.Remove(0))",
  "history: the last id of a crontab removed, then ticks observed or the crontab added again",
  "C11 quick", ["C11/T1/duplicate-firing", "C11/T2/firing-while-unregistered", "C11/T2/missing-firing"], "caught as built (single-copy reference cron)"),
 ("C11-b", "C11", "the cron job sends to ScheduleCh with select/default: a tick is dropped when the channel is full",
  "timing: >=3 different crontabs firing at the same instant, or 2 while the events handler is busy",
  "C11 quick", ["C11/T2/missing-firing"], "caught as built"),
 ("C12-a", "C12", "per-execution environment variables placed before the inherited environment (inherited values of the same name win)",
  "input: the operator's own environment holds BINDING_CONTEXT_PATH, METRICS_PATH ...",
  "C12 quick", ["C12/E2/*", "C12/E3/*", "C12/E4/*"], "missed at first: ambient environment with conflicting names added as a generated input"),
 ("C12-b", "C12", "one uuid per execution stored in a Hook field and read by the five prepare*File helpers",
  "interleaving: two executions of the same hook in different queues overlap between setting the field and the last prepare call",
  "C12 quick", ["C12/E4/file-name-reused", "C12/E2/*", "C12/E5/*"], "caught as built (real processes, executions of one hook in two queues)"),
 ("C13-a", "C13", "unmarshalFromJson loops with `for dec.More()`: a stray closing brace or bracket ends the stream silently",
  "input: a JSON stream with a stray `}` or `]` at document level",
  "C13 quick", ["C13/P1/invalid-stream-not-failed:syntax-fault", "C13/P1/invalid-stream-partly-applied:syntax-fault"],
  "missed at first: syntactic stream faults (stray tokens at document boundaries, truncated last document) added to the generator"),
 ("C13-b", "C13", "ExecuteOperations returns at the first failing operation instead of aggregating",
  "fault: an API write error on a non-last operation (injected, or AlreadyExists on a second application)",
  "C13 quick", ["C13/P2/operation-not-applied", "C13/P3/failure-status"], "caught as built (write faults of the API server model)"),
 ("C14-a", "C14", "admissionResponse stored before patch/metrics application and relayed before the Fail check",
  "fault after a zero exit with allowed:true: invalid patch file, API write error, rejected metrics",
  "C14 quick", ["C14/A1/allowed-although-output-malformed"], "caught as built"),
 ("C14-b", "C14", "`var admissionTask` moved out of the handler closure: shared by all requests",
  "history (registered path, then unknown path) or interleaving (overlapping requests)",
  "C14 quick", ["C14/A1/allowed-on-unknown-path", "C14/A3/message-not-relayed", "C14/A1/*"], "caught as built"),
 ("C15-a", "C15", "FindConversionChain extends on iteration N only cached paths of N rules",
  "history: two requests from the same source, a short chain first and a longer one second",
  "C15 quick", ["C15/V2/path-not-found"], "caught as built"),
 ("C15-b", "C15", "conversion tasks get WithQueueName(\"main\"): each conversion step combines with queued tasks of the same hook",
  "interleaving: a hook with a conversion binding and a schedule/kubernetes binding in main, a request arriving while a task of that hook is at the head of main",
  "C15 quick", ["C15/V7/foreign-contexts-in-conversion-step", "C15/V2/path-not-found"],
  "missed at first: conversion hooks had no other bindings; part `mixed=1` (schedule binding, sometimes the same group, slow and failing) and oracle V7 added"),
 ("C16-a", "C16", "ConstGaugeCollector.UpdateLabels drops the Group of re-labelled series",
  "history: a grouped gauge with live series, a later operation adding a label name, then expiry of the group",
  "C16 quick", ["C16/G1/registry-differs"], "caught as built (reference registry)"),
 ("C16-b", "C16", "vault GetOrCreate*Collector releases the lock between lookup and store",
  "interleaving: two batches report the same new metric name for the first time concurrently; the second Register fails and the operation is dropped silently",
  "C16 quick", ["C16/G1/registry-differs"], "caught as built (two concurrent senders, vault instrumented)"),
 ("C17-a", "C17", "worker stop checks became `break` inside a select; waitForTask's fast path runs before the ctx check",
  "stop requested while a handler runs whose result needs no delay, with more tasks queued",
  "C17 quick", ["C17/H1/*", "C17/H2/worker-not-stopped", "C17/H3/executions-after-stop"], "caught as built"),
 ("C17-b", "C17", "wait loop: non-blocking poll of ctx.Done, then a select on the ticker alone",
  "timing: the stop lands in the last check interval (125 ms) of a back-off, or between an arrival at an idle queue and the next poll",
  "C17 quick", ["C17/H5/task-picked-after-waiting-through-stop"],
  "missed at first: one execution after the stop was indistinguishable from a task already picked; queue status changes are now observed (R11) and oracle H5 compares the simulated instant of the pick with the stop request; stop placement biased to the end of waits (`stopat=wait`)"),
 ("C18-a", "C18", "RateLimitWait only when the task's failure count is 0",
  "fault: a failing non-allowFailure hook with executionMinInterval larger than the retry back-off",
  "C18 quick", ["C18/R1/rate-exceeded"], "missed at first: the C18 scenarios had no failing hooks"),
 ("C18-b", "C18", "RateLimitWait under a 10 s context and the limiter's error replaced by ctx.Err() (nil)",
  "timing: the required wait exceeds 10 s (long interval, or several queues stacking reservations)",
  "C18 quick", ["C18/R1/rate-exceeded"], "caught as built"),
 ("C20-a", "C20", "the skip rule for hidden and lib directories matches the path relative to the hooks directory",
  "input: nested `lib` or hidden directories (depth >= 2) holding executable files",
  "C20 quick", ["C20/D1/hook-set", "C20/D2/foreign-file-invoked"],
  "reported as missed at first because of a stale build cache: the cache key did not cover packages that are not instrumented (lib/build.sh now hashes every .go file of the tree)"),
 ("C20-b", "C20", "loadHook returns the --config error only when the process wrote to stderr",
  "fault: a --config run that exits non-zero silently after printing a valid configuration",
  "C20 quick", ["C20/D5/bad-config-accepted"], "caught as built (single --config faults enumerated per tree)"),
 # ---- third round (asked to differ in kind from the first two)
 ("C01-c", "C01", "namespace-add callback stores the new informers in VaryingInformers after starting them instead of before reading eventsEnabled",
  "interleaving: a labelSelector binding, a matching namespace appearing while the binding is locked, the unlock landing while that namespace's informers start",
  "C01 quick", ["C01/O3/missing-object", "C01/O4/lost-event"], "caught as built (monitor workload)"),
 ("C02-c", "C02", "the shared informer factory's context is derived from the first informer's context instead of Background",
  "history: two bindings sharing a factory index (kind/namespace/selectors), the namespace stops matching the first one (label removed, namespace deleted)",
  "NOT reported: C02 quick exits 2 (watchdog)", [],
  "simulator limit: with the change the stopping shared informer holds client-go's real listenersLock while it waits for listener goroutines, one of which waits for the scheduler's baton that is held by a task blocked on that real lock; the run hangs and the check ends with an infrastructure error, neither a violation nor a pass. The namespace-removal scenarios written for it (`nsdel=1`) found a genuine defect of the unchanged tree instead (known finding C02/S3/namespace-two-list-gap)"),
 ("C03-c", "C03", "TaskQueue.Filter deletes in place by moving the last task into the freed slot (order lost)",
  "history: a shared queue with a backlog in which the head task is followed by a task of the same hook and at least two more",
  "C03 quick", ["C03/Q3/order"], "caught as built"),
 ("C04-c", "C04", "handleRunHook: the error of ExecuteOperations goes into a shadowed variable: a patch that cannot be applied counts as success",
  "fault: exit 0, a valid patch, and the API server rejecting the write (allowFailure=false)",
  "C04 quick", ["C04/F1/retry-differs", "C04/F3/not-retried", "C04/F5/context-discarded"],
  "missed at first: C04 scenarios failed hooks by exit code only; some executions now write a patch and the API server model rejects the write of half of them (per-object write fault)"),
 ("C05-c", "C05", "the worker prepends HeadTasks with append(taskRes.HeadTasks, q.items...) (aliases the handler's backing array)",
  "input: a handler whose result slices have spare capacity or share a backing array",
  "C05 quick", ["C05/L1/not-linearizable"], "missed at first: handler results are now sometimes sub-slices of one backing array"),
 ("C06-c", "C06", "EnableKubernetesBindings skips bindings whose monitor already exists (continue), also skipping their Synchronization info",
  "fault + retry: AddMonitor of a later binding fails during the first attempt (list error), the retried task succeeds",
  "C06 quick", ["C06/U3/synchronization-missing", "C06/U6/synchronization-order"], "caught as built (list faults)"),
 ("C07-c", "C07", "both combine twins copy the head's monitor ids into a zero-length slice (copies nothing)",
  "configuration: >=2 kubernetes bindings sharing a group (combined Synchronizations)",
  "C07 quick", ["C07/M1/result-differs"], "caught as built"),
 ("C08-c", "C08", "OnAdd returns at once when isInInitialList is true",
  "timing: a write between the monitor's preliminary list and the shared informer's own initial list",
  "C08 quick", ["C08/T2/missing-event:Added", "C08/T3/snapshot-misses-object"],
  "missed at first: the reference was fed from an observation inside handleWatchEvent, behind the changed function; observation moved to OnAdd/OnUpdate/OnDelete, the boundary to client-go (directives now bind parameters by position)"),
 ("C09-c", "C09", "UpdateSnapshots shares one `snapshots` map between all contexts of a combined array",
  "history: combined contexts of bindings with different includeSnapshotsFrom lists",
  "C09 quick", ["C09/B5/snapshots-keys"], "missed at first: the contract validator checked presence of `snapshots`, not its exact key set"),
 ("C11-c", "C11", "ScheduleID becomes `<binding name>{<crontab>}` instead of a uuid",
  "configuration: two unnamed (or equally named) schedule bindings of one hook with the same crontab and different queues; or disable of one of two hooks with equal ids",
  "C11 quick", ["C11/T2/binding-without-task:same-name-bindings"],
  "missed at first: generated bindings always had distinct names; unnamed bindings generated, the per-firing oracle matches tasks to bindings as a multiset"),
 ("C12-c", "C12", "MetricOperationsFromReader treats io.ErrUnexpectedEOF as end of stream",
  "fault: exit 0 with a metrics file cut in the middle of a JSON value",
  "C12 quick", ["C12/E5/failure-not-detected"], "caught as built"),
 ("C13-c", "C13", "wrapErr formats with %v: the Conflict status is no longer recognised and CreateOrUpdate does not retry",
  "fault: an Update answered 409 Conflict (a concurrent writer between Get and Update)",
  "C13 quick", ["C13/P2/operation-not-applied", "C13/P3/failure-status"], "missed at first: new fault kind `update-conflict` (fewer conflicts than client-go's retry budget), part `conflicts=1` expects the fault-free outcome"),
 ("C14-c", "C14", "the response UID is no longer set on error answers",
  "fault: the handler returns an error (hook wrote no response, unknown path)",
  "C14 quick", ["C14/A2/uid-not-echoed"], "caught as built"),
 ("C15-c", "C15", "the rate-limit wait gets a 1 s timeout and returns Repeat; the conversion handler treats Repeat as a missing response",
  "configuration + timing: a conversion hook with settings.executionMinInterval > 1 s serving more steps than its burst",
  "C15 quick", ["C15/V2/path-not-found", "C15/V3/chain-does-not-reach-target"], "missed at first: part `settings=1` (rate-limited conversion hooks)"),
 ("C16-c", "C16", "validation no longer requires buckets for observe; the apply loop still fails on it mid-batch",
  "input: an ungrouped observe without buckets behind other operations",
  "C16 quick", ["C16/V2/invalid-batch-partly-applied"], "missed at first: that malformed operation was not among the generated invalid ones"),
 ("C17-c", "C17", "ScheduleManager.Stop also calls cron.Stop(), as does the watcher goroutine: the second call blocks for ever",
  "interleaving: the watcher goroutine runs between cancel() and the direct cron.Stop()",
  "C17 quick", ["C17/H4/shutdown-did-not-return"], "missed at first: runs whose Shutdown() never returned were cut off by the step cap and skipped; a Shutdown() that has not returned after 3 simulated minutes is now a violation"),
 ("C18-c", "C18", "the limiter is consulted with the task's queue timestamp (ReserveN(queuedAt)) instead of now",
  "timing: tasks that waited in a congested shared queue longer than the interval",
  "C18 quick", ["C18/R1/rate-exceeded"], "first try ended with a build error of the instrumented tree (exit 2): the select rewrite R9 turned a terminating select into a non-terminating switch (`missing return`); R9 now adds an unreachable default. Then caught as built"),
 ("C20-c", "C20", "the sort of the discovered paths is removed (filepath.Walk order is taken for lexical order)",
  "input: a directory name that is a proper prefix of a sibling's name followed by a byte sorting before `/`",
  "C20 quick", ["C20/D4/load-order", "C20/D1/hook-set"], "caught as built"),
]


def main():
    rows = []
    for (sid, prop, change, needs, by, classes, hist) in E:
        d = os.path.join(V, "seeded", sid)
        if not os.path.isdir(d):
            print("missing", d)
            continue
        ran = ["lib/confirm_seeded.sh (scratch worktree of /repo: demonstration passes without the change; `go build ./...` and `go test -vet=off -count=1 ./...` pass with it, demonstration absent; demonstration fails with it)",
               "lib/try_seeded.sh seeded/%s/patch.diff %s quick (git apply to /repo, ./check, git checkout)" % (sid, prop)]
        trial = ""
        tf = os.path.join(d, "trial.txt")
        if os.path.exists(tf):
            trial = open(tf).read().strip()
        cf = os.path.join(d, "confirm.txt")
        confirmed = os.path.exists(cf) and "CONFIRMED " in open(cf).read() and "NOT-CONFIRMED" not in open(cf).read()
        meta = {"id": sid, "property": prop, "change": change, "needs_to_manifest": needs,
                "author": "independent sub-agent given only the property text and a scratch worktree",
                "confirmed_by_me": confirmed, "what_i_ran": ran, "detected_by": by,
                "violation_classes": classes, "history": hist, "trial_output": trial.splitlines()[:12]}
        with open(os.path.join(d, "meta.json"), "w") as f:
            json.dump(meta, f, indent=1)
        rows.append(meta)
    with open(os.path.join(V, "seeded", "INDEX.md"), "w") as f:
        f.write("# Seeded breaking changes\n\nEach change compiles and passes the 222 existing tests; each was confirmed in a scratch worktree\n(`lib/confirm_seeded.sh`) and tried against the checks with `lib/try_seeded.sh`. `-a` changes are the first\nround, `-b` the second, `-c` the third (each asked to differ in kind from the earlier ones).\n\n")
        f.write("| id | change | needs | reported by | classes | note |\n|---|---|---|---|---|---|\n")
        for m in rows:
            f.write("| %s | %s | %s | %s | %s | %s |\n" % (m["id"], m["change"].replace("|", "\\|"), m["needs_to_manifest"].replace("|", "\\|"), m["detected_by"], ", ".join("`%s`" % c for c in m["violation_classes"]), m["history"].replace("|", "\\|")))
    print("wrote %d meta files" % len(rows))


if __name__ == "__main__":
    main()
