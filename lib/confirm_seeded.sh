#!/bin/bash
# usage: confirm_seeded.sh <id> <patch.diff> <demo-src-file> <demo-dest-relative-to-repo> <go test package> [-run regex]
# confirms in a scratch worktree of /repo (removed afterwards):
#   1. the demonstration passes WITHOUT the change
#   2. the tree builds and the full existing suite passes WITH the change (demonstration file absent)
#   3. the demonstration fails WITH the change
# prints CONFIRMED or NOT-CONFIRMED
id=$1; patch=$2; demo=$3; dest=$4; pkg=$5; run=${6:-.}
export GOFLAGS=-mod=mod GOPROXY=off GOSUMDB=off GOTOOLCHAIN=local PATH=/root/go/pkg/mod/golang.org/toolchain@v0.0.1-go1.23.8.linux-amd64/bin:$PATH
wt=/tmp/cf-$id
git -C /repo worktree remove --force $wt 2>/dev/null
git -C /repo worktree add -q --detach $wt HEAD || exit 2
cd $wt
ok=1
cp "$demo" "$dest"
echo "== demo WITHOUT the change"; go test -vet=off -count=1 -run "$run" $pkg > /tmp/cf-$id.1 2>&1; r1=$?; tail -3 /tmp/cf-$id.1
[ $r1 -eq 0 ] || ok=0
git apply "$patch" || { echo "patch does not apply"; ok=0; }
rm -f "$dest"
echo "== build + suite WITH the change (demo absent)"; go build ./... && go test -vet=off -count=1 ./... > /tmp/cf-$id.2 2>&1; r2=$?; grep -v "^ok\|no test files" /tmp/cf-$id.2 | tail -5; echo "suite exit $r2"
[ $r2 -eq 0 ] || ok=0
cp "$demo" "$dest"
echo "== demo WITH the change"; go test -vet=off -count=1 -run "$run" $pkg > /tmp/cf-$id.3 2>&1; r3=$?; grep -v "^ok" /tmp/cf-$id.3 | tail -4
[ $r3 -ne 0 ] || ok=0
cd /; git -C /repo worktree remove --force $wt; rm -f /tmp/cf-$id.[123]
if [ $ok -eq 1 ]; then echo "CONFIRMED $id"; else echo "NOT-CONFIRMED $id (demo-without=$r1 suite-with=$r2 demo-with=$r3)"; fi
