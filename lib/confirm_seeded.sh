#!/bin/bash
# usage: confirm_seeded.sh <id> <patch.diff> <demo-src-file> <demo-dest-relative-to-repo> <go test package> [-run regex]
# confirms in a scratch worktree: builds + full suite passes with the change; demo fails with, passes without
id=$1; patch=$2; demo=$3; dest=$4; pkg=$5; run=${6:-.}
export GOFLAGS=-mod=mod GOPROXY=off GOSUMDB=off
wt=/tmp/cf-$id
git -C /repo worktree remove --force $wt 2>/dev/null
git -C /repo worktree add -q --detach $wt HEAD || exit 2
cd $wt
cp "$demo" "$dest"
echo "== demo WITHOUT the change"; go test -count=1 -run "$run" $pkg 2>&1 | tail -3
git apply "$patch" || { echo "patch does not apply"; exit 2; }
echo "== build + suite WITH the change"; go build ./... && go test -vet=off -count=1 ./... 2>&1 | grep -v "^ok\|no test files" | tail -5; echo "suite done"
echo "== demo WITH the change"; go test -count=1 -run "$run" $pkg 2>&1 | tail -4
cd /; git -C /repo worktree remove --force $wt
