#!/bin/bash
# usage: try_seeded.sh <patch.diff> <property> [tier]  -- applies the change to /repo, runs the check, reverts
V=$(cd "$(dirname "$0")/.." && pwd)
patch=$(readlink -f "$1"); prop=$2; tier=${3:-quick}
cd /repo || exit 2
if [ -n "$(git status --porcelain)" ]; then echo "repo not clean"; exit 2; fi
git apply "$patch" || { echo "patch does not apply"; exit 2; }
cd "$V"
out=$(./check $prop $tier 2>&1); rc=$?
git -C /repo checkout -- . ; git -C /repo clean -fdq
echo "rc=$rc"
echo "$out" | grep -v "^KNOWN-FINDING" | cut -c1-400 | head -20
exit $rc
